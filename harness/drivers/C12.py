"""C12 — sampling follows the Born rule; weak simulation returns exactly the shots asked.

Tie: (1) every branch of measure_single_shot is forced (Generator.choice replaced by a scripted one that records the vector it
is handed): the product of the conditional probabilities along each of the d^L branches is compared with the dense Born
probability of that string (Z, X, Y bases), i.e. with the quantity LinAlg/TT.v proves the chain to compute; the returned
integer is compared exactly with Model/Sampling.encode; (2) the in-place measure(): both outcomes forced, probability and
post-measurement state vs the dense projection; (3) weak runs: counts vs Model/Params (C20 shares the history model).
"""
from __future__ import annotations

import itertools

import numpy as np

import common
from common import g_list
from drivers import dense

RULE = ("random right-canonical normalised MPS (L=1..4, bond<=4) x bases Z/X/Y x ALL outcome strings (forced); weak runs on small "
        "circuits incl. asymmetric ones; non-trivial = entangled state (bond>1) or basis != Z; distinct by (seed, basis, string)")
TRUSTED = ["scripted Generator.choice (harness); dense Born probabilities from an independent contraction",
           "modelled, not verified: numpy's Generator.choice draws according to the vector it is given and never an entry of "
           "probability zero; basis rotations"]
ASSUMES = ["the state is normalised and right-canonical when sampled (the form the simulator maintains)"]
HEADER = "From Coq Require Import List. Import ListNotations.\nFrom Yaqs Require Import Model.Sampling."
ROT = {"Z": np.eye(2, dtype=complex), "X": np.array([[1, 1], [1, -1]], dtype=complex) / np.sqrt(2),
       "Y": np.array([[1, -1j], [1, 1j]], dtype=complex) / np.sqrt(2)}


class Scripted:
    def __init__(self, script):
        self.script, self.k, self.ps = list(script), 0, []

    def choice(self, n, p=None):
        p = np.asarray(p, dtype=float)
        self.ps.append(p.copy())
        c = self.script[self.k]
        self.k += 1
        return int(c)


def branch_state(seed, L, real, looked=False):
    """the state of a forced-branch case, reproducible from (seed, L, real, looked)"""
    if looked:
        # history on one state object: it has been sampled in every basis (and measured nowhere), then a one-site unitary was applied to
        # its first tensor in place — the object now represents ANOTHER state (still normalised, centre still at site 0)
        mps = branch_state(seed, L, real)
        lr = np.random.default_rng(seed + 1)
        for b in ("Z", "X", "Y"):
            mps.measure_single_shot(b, rng=lr)
        z = lr.normal(size=(2, 2)) + 1j * lr.normal(size=(2, 2))
        u, _ = np.linalg.qr(z)
        mps.tensors[0] = np.einsum("ab,bcd->acd", u, np.asarray(mps.tensors[0], dtype=complex))
        return mps
    from drivers.C11 import random_mps

    rng = np.random.default_rng(seed)
    mps = random_mps(rng, L, int(rng.integers(1, 5)))
    if real:
        # a legal input of another dtype: real-valued site tensors (e.g. built by the user from a real decomposition)
        from mqt.yaqs.core.data_structures.networks import MPS as _MPS

        chi_ = int(rng.integers(1, 5))
        dims_ = [1] + [min(chi_, 2 ** min(i + 1, L - 1 - i)) for i in range(L - 1)] + [1]
        mps = _MPS(L, tensors=[rng.normal(size=(2, dims_[i], dims_[i + 1])) for i in range(L)], physical_dimensions=[2] * L)
        mps.normalize("B")
    return mps


def correspond(ctx):
    from drivers.C11 import random_mps

    ctx.rules.append(RULE)
    cases, exprs, impl = [], [], []
    for k in range(ctx.scale(14, 200)):
        L = int(ctx.rng.integers(1, 5))
        seed = int(ctx.rng.integers(0, 2**31))
        real = bool(k % 3 == 1)
        looked = bool(k % 4 == 2)
        mps = branch_state(seed, L, real, looked)
        if looked:
            ctx.count("states_sampled_before_and_changed_since")
        if real:
            ctx.count("real_dtype_states" if not any(np.iscomplexobj(t) for t in mps.tensors) else "real_valued_states_stored_complex")
        v = dense.mps_dense(mps)
        for basis in ("Z", "X", "Y"):
            rot = dense.kron_all([ROT[basis]] * L)
            born = np.abs(rot @ v) ** 2
            total = 0.0
            for bits in itertools.product([0, 1], repeat=L):
                sr = Scripted(bits)
                key = mps.measure_single_shot(basis, rng=sr)
                pr = float(np.prod([p[b] for p, b in zip(sr.ps, bits)]))
                idx = int("".join(map(str, bits)), 2)  # site 0 most significant in the dense vector
                total += pr
                impl.append((key, pr, float(born[idx]), [float(abs(np.sum(p) - 1)) for p in sr.ps]))
                if k % 2 == 0:
                    # the public one-shot entry point (what a noisy weak trajectory calls): same chain, same basis, one count
                    sr2 = Scripted(bits)
                    real_rng = np.random.default_rng
                    np.random.default_rng = lambda *a, **kw: sr2
                    try:
                        res = mps.measure_shots(1, basis=basis)
                    except Exception as e:  # noqa: BLE001
                        res = f"{type(e).__name__}: {e}"
                    finally:
                        np.random.default_rng = real_rng
                    pr2 = float(np.prod([p[b] for p, b in zip(sr2.ps, bits)])) if len(sr2.ps) == L else float("nan")
                    ctx.count("one_shot_entry_" + basis)
                    if res != {key: 1} or not abs(pr2 - pr) <= 1e-12:
                        ctx.violation("one-shot", f"measure_shots(1, basis='{basis}') with the outcome string {list(bits)} forced returns {res} with chain probability "
                                      f"{pr2:.10f}; measure_single_shot('{basis}') gives key {key} with probability {pr:.10f} (Born {float(born[idx]):.10f})",
                                      {"oracle": "one-shot", "seed": seed, "L": L, "basis": basis, "bits": list(bits), "real": real, "looked": looked})
                exprs.append(f"encode {g_list([str(b) + '%nat' for b in bits])}")
                cases.append(dict(seed=seed, L=L, basis=basis, bits=list(bits), bond=max(t.shape[2] for t in mps.tensors), real=real, looked=looked))
    wide_correspondence(ctx)
    vals = common.coq_eval_sharded(HEADER, exprs, tag="c12")
    for c, (key, pr, born, defects), m in zip(cases, impl, vals):
        nontriv = c["bond"] > 1 or c["basis"] != "Z"
        ctx.case(nontrivial_key=(c["seed"], c["basis"], tuple(c["bits"])) if nontriv else None, validated=True,
                 sample={**c, "chain_probability": pr, "born": born, "key": key} if nontriv and c["L"] > 2 else None)
        ctx.count("branches_" + c["basis"])
        if key != m:
            ctx.mismatch("measure_single_shot key vs Sampling.encode", c, key, m)
        if abs(pr - born) > 1e-9:
            ctx.violation("born", f"basis {c['basis']}: the chain assigns probability {pr:.10f} to outcome {c['bits']}, Born probability is {born:.10f}",
                          {"oracle": "branch", **c})
        if max(defects) > 1e-9:
            ctx.violation("conditional-not-normalised", f"a conditional probability vector handed to choice() sums to 1 +- {max(defects):.2e}", {"oracle": "branch", **c})


def wide_correspondence(ctx):
    """registers of 64 and more sites (product head, entangled tail): forced outcome strings with ones on the high sites; the key
    vs Sampling.encodeZ (Python integers are unbounded) and the chain probability of the forced string vs the product of the head
    weights and the dense Born weight of the tail"""
    from mqt.yaqs.core.data_structures.networks import MPS

    cases, exprs, impl = [], [], []
    for k in range(ctx.scale(8, 80)):
        rng = np.random.default_rng(int(ctx.rng.integers(0, 2**31)))
        L, tail = int(rng.integers(64, 71)), 4
        tens, head_amp = [], []
        for i in range(L - tail):
            a = rng.normal(size=2) + 1j * rng.normal(size=2)
            a /= np.linalg.norm(a)
            head_amp.append(a)
            tens.append(a.reshape(2, 1, 1))
        dims = [1, 2, 2, 2, 1]
        tl = [rng.normal(size=(2, dims[j], dims[j + 1])) + 1j * rng.normal(size=(2, dims[j], dims[j + 1])) for j in range(tail)]
        tail_mps = MPS(tail, tensors=[t.copy() for t in tl], physical_dimensions=[2] * tail)
        tail_mps.normalize("B")
        mps = MPS(L, tensors=tens + [t.copy() for t in tail_mps.tensors], physical_dimensions=[2] * L)
        tv = dense.mps_dense(tail_mps)
        for rep in range(3):
            bits = [int(b) for b in rng.integers(0, 2, size=L)]
            for hi in rng.choice(np.arange(60, L), size=int(rng.integers(1, 4)), replace=False):
                bits[int(hi)] = 1
            sr = Scripted(bits)
            key = mps.measure_single_shot("Z", rng=sr)
            pr = float(np.prod([p[b] for p, b in zip(sr.ps, bits)]))
            want = float(np.prod([abs(head_amp[i][bits[i]]) ** 2 for i in range(L - tail)]) * abs(tv[int("".join(map(str, bits[L - tail:])), 2)]) ** 2)
            impl.append((key, pr, want))
            exprs.append(f"encodeZ {g_list([str(b) + '%nat' for b in bits])}")
            cases.append(dict(L=L, ones_at=[i for i, b in enumerate(bits) if b and i >= 56]))
    vals = common.coq_eval_sharded("From Coq Require Import List ZArith. Import ListNotations.\nFrom Yaqs Require Import Model.Sampling.", exprs, tag="c12w")
    for c, (key, pr, want), m in zip(cases, impl, vals):
        ctx.case(nontrivial_key=("wide", c["L"], tuple(c["ones_at"])), validated=True, sample={**c, "key": str(key)} if len(ctx.samples) < 3 else None)
        ctx.count("wide_registers")
        if key != m:
            ctx.mismatch("measure_single_shot key vs Sampling.encodeZ (registers of 64 and more sites)", c, str(key), str(m), key="wide-key")
        if abs(pr - want) > 1e-9 * max(want, 1e-300) + 1e-300:
            ctx.violation("born-wide", f"{c['L']} sites: the chain assigns probability {pr:.6e} to a forced outcome, Born probability is {want:.6e}", {"oracle": "wide", **c})


def measure_oracle(args):
    from drivers.C11 import random_mps

    rng = np.random.default_rng(args["seed"])
    L, site, basis = args["L"], args["site"], args["basis"]
    base = random_mps(rng, L, args["chi"])
    v = dense.mps_dense(base)
    rot = ROT[basis]
    tot = 0.0
    for outcome in (0, 1):
        import copy

        m = copy.deepcopy(base)
        sr = Scripted([outcome])
        got = m.measure(site, basis, rng=sr)
        p = float(sr.ps[0][outcome])
        # dense: projector onto rot^dagger |outcome> at `site`
        ket = rot.conj().T[:, outcome]
        proj = dense.op_on(L, {site: np.outer(ket, ket.conj())})
        pv = proj @ v
        pb = float(np.vdot(pv, pv).real)
        tot += p
        if got != outcome:
            return f"measure returned {got} for the forced outcome {outcome}"
        if abs(p - pb) > 1e-9:
            return f"measure(site={site}, basis={basis}): outcome {outcome} has probability {p:.10f}, Born probability {pb:.10f}"
        if pb > 1e-12:
            w = dense.mps_dense(m)
            if dense.up_to_phase(w, pv / np.sqrt(pb)) > 1e-8:
                return f"measure(site={site}, basis={basis}): post-measurement state is not the normalised projection (outcome {outcome})"
    if abs(tot - 1) > 1e-9:
        return "outcome probabilities of measure() do not sum to one"
    # history on one state object: measure, bring the state back to the form the simulator maintains, measure elsewhere
    if args.get("history") and L >= 2:
        import copy

        m = copy.deepcopy(base)
        cur = v.copy()
        for step, (st_, bs_, oc_) in enumerate(args["history"]):
            st_ = st_ % L
            sr = Scripted([oc_])
            m.measure(st_, bs_, rng=sr)
            ket = ROT[bs_].conj().T[:, oc_]
            pv = dense.op_on(L, {st_: np.outer(ket, ket.conj())}) @ cur
            pb = float(np.vdot(pv, pv).real)
            if pb < 1e-9:
                break
            if abs(float(sr.ps[0][oc_]) - pb) > 1e-9:
                return (f"measurement number {step + 1} on one state object (site {st_}, basis {bs_}; earlier measurements {args['history'][:step]}, the state "
                        f"re-normalised to form B in between): outcome {oc_} gets probability {float(sr.ps[0][oc_]):.10f}, Born probability {pb:.10f}")
            cur = pv / np.sqrt(pb)
            if dense.up_to_phase(dense.mps_dense(m), cur) > 1e-8 or abs(np.linalg.norm(dense.mps_dense(m)) - 1) > 1e-8:
                return f"measurement number {step + 1} on one state object left a state that is not the normalised projection (history {args['history'][:step + 1]})"
            m.normalize("B")
    return None


def weak_oracle(args):
    from qiskit import QuantumCircuit
    from qiskit.quantum_info import Statevector

    from mqt.yaqs import simulator
    from mqt.yaqs.core.data_structures.networks import MPS
    from mqt.yaqs.core.data_structures.noise_model import NoiseModel
    from mqt.yaqs.core.data_structures.simulation_parameters import WeakSimParams

    n, shots = args["n"], args["shots"]
    qc = QuantumCircuit(n)
    if args["kind"] == "ghz":
        qc.h(0)
        for q in range(n - 1):
            qc.cx(q, q + 1)
    elif args["kind"] == "flip0":
        qc.x(0)
    elif args["kind"] == "wide":
        qc.x(1); qc.h(n - 3); qc.cx(n - 3, n - 2); qc.x(n - 1)  # noqa: E702
    else:
        qc.x(n - 1); qc.h(0)  # noqa: E702
    p = WeakSimParams(shots=shots, show_progress=False)
    # history: the same parameter object served earlier runs (noisy and/or noise-free) of another circuit
    for hn in args.get("history", []):
        prev = QuantumCircuit(n)
        prev.x(n - 1)
        prev.h(0)
        hnm = NoiseModel([{"name": "pauli_z", "sites": [q], "strength": 0.05} for q in range(n)]) if hn else None
        with common.time_limit(200):
            simulator.run(MPS(n), prev, p, hnm, parallel=False)
    # "noisy" runs: an ordinary strength, or one of the borderline strengths at which the front-end and the trajectory routine must
    # agree on whether the run counts as noise-free (0.0, denormal-small, 1e-13, 1e-9)
    strength = float(args.get("strength", 0.05))
    nm = NoiseModel([{"name": "pauli_z", "sites": [q], "strength": strength} for q in range(1 if strength >= 1e-3 else n)]) if args["noisy"] else None
    with common.time_limit(200):
        simulator.run(MPS(n), qc, p, nm, parallel=False)
    if sum(p.results.values()) != shots:
        return f"weak simulation returned counts summing to {sum(p.results.values())} for {shots} shots"
    if args["kind"] == "wide":  # too wide for a dense vector: the two possible outcomes are known in closed form
        allowed = {(1 << 1) | (1 << (n - 1)), (1 << 1) | (1 << (n - 1)) | (1 << (n - 3)) | (1 << (n - 2))}
        bad = [key for key in p.results if key not in allowed]
        if bad:
            return (f"weak simulation of {n} qubits returned key {bad[0]} which is not a possible outcome (qubits 1 and {n - 1} are always 1, "
                    f"qubits {n - 3} and {n - 2} are equal; bit i = qubit i): possible keys {sorted(allowed)}")
        return None
    probs = np.abs(Statevector(qc).data) ** 2  # little-endian: bit i of the index is qubit i
    for key in p.results:
        if not (0 <= key < 2**n):
            return f"key {key} is not an {n}-bit integer"
        if probs[key] < 1e-12 and not args["noisy"]:
            return f"weak simulation returned outcome {key:0{n}b} (bit i = qubit i) whose probability is zero for circuit '{args['kind']}'"
    if args["noisy"] and args["kind"] != "ghz":
        for key in p.results:  # dephasing noise cannot move population: same support
            if probs[key] < 1e-12:
                return f"noisy weak simulation returned outcome {key:0{n}b} of probability zero"
    return None


def search(ctx):
    for basis in ("X", "Y"):
        a = dict(L=3, basis=basis, shots=4)
        why = pool_shots_oracle(a)
        ctx.case(nontrivial_key=("pool-shots", basis))
        ctx.count("pool_shots")
        if why:
            ctx.violation("pool-shots", why, {"oracle": "pool-shots", "args": a})
    for k in range(ctx.scale(30, 500)):
        L = int(ctx.rng.integers(1, 5))
        a = dict(seed=int(ctx.rng.integers(0, 2**31)), L=L, chi=int(ctx.rng.integers(1, 5)), site=int(ctx.rng.integers(0, L)), basis=str(ctx.rng.choice(["Z", "X", "Y"])))
        if k % 2:
            a["history"] = [(int(ctx.rng.integers(0, 4)), str(ctx.rng.choice(["Z", "X", "Y"])), int(ctx.rng.integers(0, 2))) for _ in range(int(ctx.rng.integers(2, 4)))]
        why = measure_oracle(a)
        ctx.case(nontrivial_key=("measure", a["seed"]))
        ctx.count("measure_inplace")
        if why:
            ctx.violation("measure", why, {"oracle": "measure", "args": a})
    plan = [dict(n=3, shots=20, kind="ghz", noisy=False), dict(n=3, shots=5, kind="flip0", noisy=False), dict(n=3, shots=7, kind="x_last", noisy=False),
            dict(n=2, shots=6, kind="flip0", noisy=True), dict(n=3, shots=1, kind="x_last", noisy=False),
            dict(n=3, shots=9, kind="flip0", noisy=False, history=[True]), dict(n=2, shots=5, kind="flip0", noisy=True, history=[False]),
            dict(n=3, shots=6, kind="ghz", noisy=False, history=[True, False, True]),
            dict(n=2, shots=7, kind="flip0", noisy=True, strength=0.0), dict(n=2, shots=7, kind="flip0", noisy=True, strength=1e-13),
            dict(n=3, shots=5, kind="x_last", noisy=True, strength=1e-9), dict(n=2, shots=4, kind="flip0", noisy=True, strength=5e-324),
            dict(n=66, shots=12, kind="wide", noisy=False)]
    if not ctx.quick:
        plan += [dict(n=int(ctx.rng.integers(2, 5)), shots=int(ctx.rng.integers(1, 30)), kind=str(ctx.rng.choice(["ghz", "flip0", "x_last"])), noisy=bool(ctx.rng.random() < 0.4),
                      strength=float(ctx.rng.choice([0.05, 0.0, 1e-15, 1e-13, 1e-11, 1e-7, 0.3])),
                      history=[bool(b) for b in ctx.rng.integers(0, 2, size=int(ctx.rng.integers(0, 3)))]) for _ in range(20)]
    for a in plan:
        try:
            why = weak_oracle(a)
        except common.HardTimeout:
            ctx.notes.append("weak oracle timed out")
            continue
        ctx.case(nontrivial_key=("weak", str(a)))
        ctx.count("weak_runs")
        if why:
            ctx.violation("weak", why, {"oracle": "weak", "args": a})


def one_shot_oracle(rp):
    mps = branch_state(rp["seed"], rp["L"], rp["real"], rp.get("looked", False))
    bits, basis = rp["bits"], rp["basis"]
    sr = Scripted(bits)
    key = mps.measure_single_shot(basis, rng=sr)
    pr = float(np.prod([p[b] for p, b in zip(sr.ps, bits)]))
    sr2 = Scripted(bits)
    real_rng = np.random.default_rng
    np.random.default_rng = lambda *a, **kw: sr2
    try:
        res = mps.measure_shots(1, basis=basis)
    finally:
        np.random.default_rng = real_rng
    pr2 = float(np.prod([p[b] for p, b in zip(sr2.ps, bits)]))
    if res != {key: 1} or abs(pr2 - pr) > 1e-12:
        return f"measure_shots(1, basis='{basis}') returns {res} with chain probability {pr2:.10f}; measure_single_shot gives key {key}, probability {pr:.10f}"
    return None


def pool_shots_oracle(args):
    """several shots (worker processes) in the X and Y bases on eigenstates of those bases: one certain outcome"""
    from mqt.yaqs.core.data_structures.networks import MPS

    L, basis = args["L"], args["basis"]
    mps = MPS(L, state={"X": "x+", "Y": "y+", "Z": "zeros"}[basis])
    res = mps.measure_shots(args["shots"], basis=basis)
    if res != {0: args["shots"]}:
        return f"measure_shots({args['shots']}, basis='{basis}') on the all-plus eigenstate of that basis returns {res}, the only possible outcome is key 0"
    return None


def replay(ctx, data):
    rp = data.get("replay", data)
    if rp.get("oracle") == "one-shot":
        return one_shot_oracle(rp)
    if rp.get("oracle") == "pool-shots":
        return pool_shots_oracle(rp["args"])
    if rp.get("oracle") == "measure":
        return measure_oracle(rp["args"])
    if rp.get("oracle") == "weak":
        return weak_oracle(rp["args"])
    if rp.get("oracle") == "branch":
        from drivers.C11 import random_mps

        mps = branch_state(rp["seed"], rp["L"], rp.get("real", False), rp.get("looked", False))
        v = dense.mps_dense(mps)
        sr = Scripted(rp["bits"])
        mps.measure_single_shot(rp["basis"], rng=sr)
        pr = float(np.prod([p[b] for p, b in zip(sr.ps, rp["bits"])]))
        born = float(np.abs(dense.kron_all([ROT[rp["basis"]]] * rp["L"]) @ v)[int("".join(map(str, rp["bits"])), 2)] ** 2)
        return f"chain {pr} vs Born {born}" if abs(pr - born) > 1e-9 else None
    return "re-run the check: " + "; ".join(b["what"] for b in data.get("broken", []))
