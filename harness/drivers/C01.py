"""C01 — open-system trajectories average to the Lindblad master equation.

Tie: (1) the probability vector returned by the real create_probability_distribution on random sub-normalised entangled
states and random process lists (every kind of the noise library, any order) vs the binary64 instance of
Model/NoiseAttrib.probabilities fed with independently computed dense jump norms (1e-9); (2) which process the real
stochastic_process applies for a forced index; (3) pipeline words (shared with C14/C15).
Search: the WHOLE outcome tree of a trajectory (forced generator, probabilities the code itself used) averaged and compared
with the dense Lindblad solution at dt and dt/2 (local error must fall by ~4), for TJM order 1, order 2 and MCWF, plus
invariance under permuting the process list.
"""
from __future__ import annotations

import itertools

import numpy as np

import common
from drivers import dense, lottery, tracing
from drivers.C14 import HEADER as WHEADER
from drivers.C14 import model_expr

RULE = ("lottery: random process lists (1-4 processes; one-site, adjacent two-site Pauli and non-Pauli, long-range Pauli; unequal "
        "strengths; any order) on random entangled sub-normalised MPS, L=2..4; trees: all outcome paths of one- and two-step "
        "trajectories; non-trivial = list not sorted by site or contains a two-site process; distinct by (state seed, list)")
TRUSTED = ["forced Generator (harness) in place of numpy's default_rng; dense jump norms and dense Lindblad reference (drivers/dense.py)",
           "modelled, not verified: the dissipation sweep and the local exponentials; convergence order beyond the single-step ratio test"]
ASSUMES = ["the code's own probabilities (thresholds compared with random(), vectors handed to choice()) weight the outcome tree"]


def correspond(ctx):
    ctx.rules.append(RULE)
    cases, exprs, impl = [], [], []
    for k in range(ctx.scale(120, 2500)):
        L = int(ctx.rng.integers(2, 5))
        desc, got, expr = lottery.lottery_case(ctx.rng, L)
        cases.append(desc)
        impl.append(got)
        exprs.append(expr)
    vals = common.coq_eval_sharded(lottery.HEADER, exprs, tag="c01")
    for desc, got, m in zip(cases, impl, vals):
        sites = [p[1][0] for p in desc["processes"]]
        nontriv = sites != sorted(sites) or any(len(p[1]) == 2 for p in desc["processes"])
        ctx.case(nontrivial_key=str(desc) if nontriv else None, validated=True, sample={**desc, "probabilities": got} if nontriv else None)
        ctx.count("lottery")
        for p in desc["processes"]:
            ctx.count("kind_" + ("one" if len(p[1]) == 1 else ("adjacent" if abs(p[1][1] - p[1][0]) == 1 else "longrange")))
        if isinstance(got, str) or len(got) != len(m) or any(not (abs(a - b) <= 1e-9) for a, b in zip(got, m)):
            ctx.mismatch("create_probability_distribution vs NoiseAttrib.probabilities", desc, got, m)
    # the dissipation sweep: every process damped once, with its own strength, in the modelled order
    dc, de, di = [], [], []
    for k in range(ctx.scale(60, 1200)):
        dseed, dL = int(ctx.rng.integers(0, 2**31)), int(ctx.rng.integers(2, 6))
        desc, order, err, dev, expr = lottery.dissipation_case(np.random.default_rng(dseed), dL)
        desc = {**desc, "seed": dseed}
        dc.append(desc)
        di.append((order, err, dev))
        de.append(expr)
    dvals = common.coq_eval_sharded(lottery.HEADER, de, tag="c01d")
    for desc, (order, err, dev), m in zip(dc, di, dvals):
        names = [p[0] for p in desc["processes"]]
        rep = any(names.count(nm_) > 1 and nm_ not in lottery.PAULI_NAMES for nm_ in names)
        ctx.case(nontrivial_key=("diss", str(desc)) if rep or any(len(p[1]) == 2 for p in desc["processes"]) else None, validated=True)
        ctx.count("dissipation_sweeps")
        ctx.count("dissipation_repeated_nonpauli_name" if rep else "dissipation_distinct_names")
        if err or order != list(m):
            ctx.mismatch("damping operators contracted by apply_dissipation (process positions, in order) vs NoiseAttrib.damp_schedule", desc, err or order, list(m), key="dissipation")
        if dev is not None and dev > 1e-9:
            ctx.violation("dissipation", f"apply_dissipation(dt={desc['dt']}) differs from prod_k exp(-dt/2 gamma_k L_k^+L_k) applied to the dense state by {dev:.3e} "
                          f"(processes {desc['processes']})", {"oracle": "dissipation", **desc})
    # MCWF: the operators handed to the dense trajectory solver
    for k in range(ctx.scale(40, 600)):
        mseed = int(ctx.rng.integers(0, 2**31))
        desc, why = lottery.mcwf_operators_case(np.random.default_rng(mseed), int(ctx.rng.integers(2, 5)))
        zero_first = any(p[2] == 0 for p in desc["processes"][:-1])
        ctx.case(nontrivial_key=("mcwf-ops", mseed) if zero_first else None, validated=True)
        ctx.count("mcwf_operator_lists")
        if why:
            ctx.mismatch("preprocess_mcwf jump operators / H_eff vs sqrt(gamma_k) L_k of the processes with positive strength (own strength, list order)",
                         {**desc, "seed": mseed}, why, "own strength per process", key="mcwf-operators")
    # forced index -> applied process
    chosen_process_correspondence(ctx)
    filing_correspondence(ctx)
    # pipeline words with noise (no schedule)
    wc, we, wi = [], [], []
    for n in range(ctx.scale(12, 100)):
        order, dt, k, sampling = 1 + n % 2, 0.1, int(ctx.rng.integers(1, 7)), bool(n % 3)
        rows, npts, shape, ncalls = tracing.analog_columns(order, k * dt, dt, [], sampling, True)
        wi.append(rows)
        we.append(model_expr(order, k * dt, dt, [], sampling, True))
        wc.append(dict(order=order, k=k, sampling=sampling))
    vals = common.coq_eval_sharded(WHEADER, we, tag="c01w")
    for c, rows, v in zip(wc, wi, vals):
        ctx.case(nontrivial_key=("word", c["order"], c["k"], c["sampling"]), validated=True)
        if rows != [(col, tracing.word_to_py(w)) for (col, w) in v]:
            ctx.mismatch("analog_tjm words vs JumpPipeline", c, rows, v)


def filing_correspondence(ctx):
    """NoiseModel.__init__ on random process lists (pairs listed in either order) vs Model/NoiseNorm: stored sites, matrix or factors, and
    for crosstalk_ab the operator itself: P_a on the lower site (x) P_b on the upper site"""
    from mqt.yaqs.core.data_structures.noise_model import NoiseModel

    cases, exprs, impl = [], [], []
    for k in range(ctx.scale(60, 800)):
        L = int(ctx.rng.integers(2, 7))
        u = ctx.rng.random()
        if u < 0.25:
            name, sites = str(ctx.rng.choice(lottery.ONE_NAMES)), [int(ctx.rng.integers(0, L))]
        else:
            a = int(ctx.rng.integers(0, L))
            b = int(ctx.rng.choice([x for x in range(L) if x != a]))
            name = "crosstalk_" + "".join(ctx.rng.choice(list("xyz"), size=2))
            if abs(a - b) == 1 and ctx.rng.random() < 0.3:
                name = str(ctx.rng.choice(["lowering_two", "raising_two"]))
            sites = [a, b]
        try:
            pr = NoiseModel([{"name": name, "sites": list(sites), "strength": 0.1}]).processes[0]
            got = (list(pr["sites"]), "matrix" in pr, "factors" in pr)
            op = None
            if name.startswith("crosstalk_"):
                pa, pb = dense.PAULI[name[-2]], dense.PAULI[name[-1]]
                if "matrix" in pr:
                    op = bool(np.allclose(np.asarray(pr["matrix"]), np.kron(pa, pb)))
                elif "factors" in pr:
                    op = bool(np.allclose(np.asarray(pr["factors"][0]), pa) and np.allclose(np.asarray(pr["factors"][1]), pb))
        except Exception as e:  # noqa: BLE001
            got, op = f"EXC:{type(e).__name__}:{e}", None
        impl.append((got, op))
        exprs.append(f"let f := file_sites {lottery.g_list([str(x) + '%nat' for x in sites])} in (stored_sites f, carries_matrix f, carries_factors f)")
        cases.append(dict(name=name, sites=sites))
    vals = common.coq_eval_sharded("From Coq Require Import List. Import ListNotations.\nFrom Yaqs Require Import Model.NoiseNorm.", exprs, tag="c01n")
    for c, (got, op), mv in zip(cases, impl, vals):
        want = (list(mv[0]), bool(mv[1]), bool(mv[2]))
        ctx.case(nontrivial_key=("filing", c["name"], tuple(c["sites"])) if len(c["sites"]) == 2 and c["sites"][0] > c["sites"][1] else None, validated=True)
        ctx.count("process_filings")
        if got != want or op is False:
            ctx.mismatch("NoiseModel filing of a listed process (stored sites, matrix / factors, crosstalk operator on (lower, upper)) vs NoiseNorm.file_sites",
                         c, {"filed": got, "operator_is_Pa_on_lower_Pb_on_upper": op}, want, key="filing")


def chosen_process_correspondence(ctx):
    """stochastic_process with a forced index k must apply noise_model.processes[k] (checked on the dense vector)."""
    import copy

    from mqt.yaqs.core.data_structures.noise_model import NoiseModel
    from mqt.yaqs.core.data_structures.simulation_parameters import AnalogSimParams, Observable
    from mqt.yaqs.core.methods.stochastic_process import stochastic_process

    from drivers.C11 import random_mps

    for i in range(ctx.scale(30, 400)):
        L = int(ctx.rng.integers(2, 5))
        procs = lottery.random_processes(ctx.rng, L)
        nm = NoiseModel(lottery.nm_procs(procs))
        base = random_mps(ctx.rng, L, 3)
        base.tensors[0] = base.tensors[0] * 0.8
        v = dense.mps_dense(base)
        par = AnalogSimParams([Observable("z", 0)], elapsed_time=0.1, dt=0.1, show_progress=False, threshold=1e-14)
        strengths = [q["strength"] for q in nm.processes]
        for k, p in enumerate(nm.processes):
            def pick(n_, pv, k=k):
                # the outcome "process k": entry k of a vector with one entry per listed process; if the vector only lists the
                # processes with positive weight (in order), the entry of process k among those
                if len(pv) == len(strengths):
                    return k
                live = [j for j, g_ in enumerate(strengths) if g_ > 0]
                return live.index(k) if k in live and len(pv) == len(live) else k

            if strengths[k] == 0:
                continue
            rng = lottery.ForcedRng(["J", pick])
            try:
                out = stochastic_process(copy.deepcopy(base), nm, 0.1, par, rng=rng)
            except Exception as e:  # noqa: BLE001
                ctx.mismatch("stochastic_process raised", {"L": L, "processes": [(q["name"], q["sites"]) for q in nm.processes]}, repr(e), "-")
                continue
            if rng.log and rng.log[-1][0] == "choice" and len(rng.log[-1][2]) != len(nm.processes):
                ctx.mismatch("probability vector handed to Generator.choice vs NoiseAttrib.probabilities (one entry per listed process)",
                             {"L": L, "processes": [(q["name"], q["sites"], q["strength"]) for q in nm.processes]}, len(rng.log[-1][2]), len(nm.processes), key="choice-vector")
            lv = lottery.dense_op(p, L) @ v
            nrm = np.linalg.norm(lv)
            ctx.case(nontrivial_key=("chosen", i, k), validated=True)
            ctx.count("forced_choice")
            if nrm < 1e-9:
                continue
            d = dense.up_to_phase(dense.mps_dense(out), lv / nrm)
            if d > 1e-7:
                ctx.violation("chosen-process", f"when the lottery draws process {k} stochastic_process did not apply processes[{k}] = "
                              f"{p['name']}@{p['sites']} (distance {d:.2e}); list {[(q['name'], q['sites']) for q in nm.processes]}",
                              {"oracle": "chosen", "L": L, "procs": procs, "k": k})


# ---- whole outcome tree vs dense Lindblad ---------------------------------------------------------------------
def tree_average(solver, order, L, procs, dt, steps, state_name, J=1.0, g=0.6):
    """Average of the observable rows over ALL outcome paths, weighted with the code's own probabilities."""
    import mqt.yaqs.analog.analog_tjm as A
    from mqt.yaqs.analog.mcwf import mcwf, preprocess_mcwf
    from mqt.yaqs.core.data_structures.networks import MPO, MPS
    from mqt.yaqs.core.data_structures.noise_model import NoiseModel
    from mqt.yaqs.core.data_structures.simulation_parameters import AnalogSimParams, Observable

    obs = [Observable(p, q) for q in range(L) for p in "xz"]
    par = AnalogSimParams(obs, elapsed_time=steps * dt, dt=dt, order=order, sample_timesteps=False, show_progress=False,
                          threshold=1e-14, max_bond_dim=16)
    nm = NoiseModel(lottery.nm_procs(procs))
    H = MPO.ising(L, J, g)
    real_rng = np.random.default_rng

    def run(rng):
        np.random.default_rng = lambda *a, **k: rng
        try:
            if solver == "MCWF":
                ctx_ = preprocess_mcwf(MPS(L, state=state_name), H, nm, par)
                return np.array(mcwf((0, ctx_)), dtype=float)[:, -1]
            fn = A.analog_tjm_1 if order == 1 else A.analog_tjm_2
            return np.array(fn((0, MPS(L, state=state_name), nm, par, H)), dtype=float)[:, -1]
        finally:
            np.random.default_rng = real_rng

    leaves = lottery.enumerate_tree(run)
    tot = sum(p for p, _, _ in leaves)
    avg = sum(p * r for p, r, _ in leaves)
    return avg, tot, len(leaves)


def lindblad_reference(L, procs, T, state_name, J=1.0, g=0.6):
    h = dense.ising(L, J, g)
    ls = [np.sqrt(p["strength"]) * lottery.dense_op(p, L) for p in procs]
    v0 = dense.named_state(L, state_name)
    rho = dense.lindblad_evolve(h, ls, np.outer(v0, v0.conj()), T)
    out = []
    for q in range(L):
        for p in "xz":
            out.append(float(np.real(np.trace(rho @ dense.op_on(L, {q: dense.PAULI[p]})))))
    return np.array(out)


def tree_oracle(args):
    solver, order, L, procs, dt, state = args["solver"], args["order"], args["L"], args["procs"], args["dt"], args["state"]
    errs = []
    for d in (dt, dt / 2, dt / 4):
        avg, tot, n = tree_average(solver, order, L, procs, d, 1, state)
        if abs(tot - 1.0) > 1e-8:
            return f"{solver} order {order}: the probabilities of the {n} outcome paths sum to {tot:.10f}"
        ref = lindblad_reference(L, procs, d, state)
        errs.append(float(np.max(np.abs(avg - ref))))
    scale = sum(p["strength"] for p in procs) + 1.6
    if errs[0] > 4.0 * (scale * dt) ** 2 + 1e-9:
        return (f"{solver} order {order}: one-step tree average differs from the Lindblad solution by {errs[0]:.3e} at dt={dt} "
                f"(more than 4 (rate*dt)^2 = {4 * (scale * dt) ** 2:.3e}); processes {[(p['name'], p['sites'], p['strength']) for p in procs]}")
    # quadratic shrinkage: at least one of two successive halvings must reduce the error by more than a factor 2.8 (a single ratio
    # can be spoiled by a sign change of the error on the way to the asymptotic regime; a first-order error gives ~0.5 twice)
    if errs[0] > 1e-7 and errs[1] > 0.36 * errs[0] and errs[2] > 0.36 * errs[1]:
        return (f"{solver} order {order}: halving dt twice reduces the one-step error only from {errs[0]:.3e} to {errs[1]:.3e} to {errs[2]:.3e} "
                f"(first-order inconsistent with the master equation); processes {[(p['name'], p['sites'], p['strength']) for p in procs]}")
    if args.get("permute"):
        perm = list(reversed(procs))
        a1, _, _ = tree_average(solver, order, L, procs, dt, 1, state)
        a2, _, _ = tree_average(solver, order, L, perm, dt, 1, state)
        if np.max(np.abs(a1 - a2)) > 1e-9:
            return f"{solver} order {order}: the tree average changes by {np.max(np.abs(a1 - a2)):.3e} when the process list is reversed"
    return None


FIXED = [
    dict(L=2, procs=[{"name": "lowering", "sites": [1], "strength": 1.0}, {"name": "pauli_z", "sites": [0], "strength": 0.1}], state="x+"),
    dict(L=2, procs=[{"name": "lowering_two", "sites": [0, 1], "strength": 0.8}, {"name": "pauli_x", "sites": [1], "strength": 0.2}], state="x+"),
    dict(L=3, procs=[{"name": "crosstalk_xy", "sites": [0, 2], "strength": 0.5}, {"name": "raising", "sites": [1], "strength": 0.7}], state="x+"),
    # a switched-off channel listed among active ones
    dict(L=2, procs=[{"name": "lowering", "sites": [0], "strength": 0.3}, {"name": "pauli_x", "sites": [0], "strength": 0.0}, {"name": "pauli_z", "sites": [1], "strength": 0.2}], state="x+"),
]


def search(ctx):
    plan = []
    for f in FIXED:
        for solver, order in (("TJM", 1), ("TJM", 2), ("MCWF", 1)):
            plan.append({**f, "solver": solver, "order": order, "dt": 0.05, "permute": True})
    for k in range(ctx.scale(4, 60)):
        L = int(ctx.rng.integers(2, 4))
        procs = lottery.random_processes(ctx.rng, L, nmax=3)
        solver, order = [("TJM", 1), ("TJM", 2), ("MCWF", 1)][k % 3]
        plan.append(dict(L=L, procs=procs, state="x+", solver=solver, order=order, dt=0.05, permute=bool(k % 2)))
    # start from the process lists on which a correspondence diverged (small ones), with the solver concerned
    for mm in ctx.mismatches[:20]:
        c = mm.get("case")
        if isinstance(c, dict) and "processes" in c and c.get("L", 9) <= 3 and len(c["processes"]) <= 4:
            procs = [{"name": nm_, "sites": list(st_), "strength": float(g_)} for nm_, st_, g_ in c["processes"]]
            solvers = [("MCWF", 1)] if mm.get("key") == "mcwf-operators" else [("TJM", 1), ("TJM", 2)]
            for solver, order in solvers:
                plan.insert(0, dict(L=c["L"], procs=procs, state="x+", solver=solver, order=order, dt=0.05, permute=False))
    plan = plan[: len(plan) if not ctx.quick else 24]
    for a in plan:
        try:
            with common.time_limit(300):
                why = tree_oracle(a)
        except common.HardTimeout:
            ctx.notes.append("tree oracle timed out")
            continue
        except RuntimeError as e:
            ctx.notes.append(f"tree skipped: {e}")
            continue
        sites = [p["sites"][0] for p in a["procs"]]
        ctx.case(nontrivial_key=("tree", a["solver"], a["order"], str(a["procs"])) if sites != sorted(sites) or any(len(p["sites"]) == 2 for p in a["procs"]) else None,
                 sample={k: a[k] for k in ("solver", "order", "L", "procs", "dt")} if len(ctx.samples) < 5 else None)
        ctx.count("tree_" + a["solver"] + str(a["order"]))
        if why:
            ctx.violation(f"tree:{a['solver']}{a['order']}", why, {"oracle": "tree", "args": a})


def replay(ctx, data):
    rp = data.get("replay", data)
    if rp.get("oracle") == "dissipation":
        _, _, err, dev, _ = lottery.dissipation_case(np.random.default_rng(rp["seed"]), rp["L"])
        return err or (f"apply_dissipation differs from the dense product of exponentials by {dev:.3e}" if dev > 1e-9 else None)
    if rp.get("oracle") == "tree":
        return tree_oracle(rp["args"])
    if rp.get("oracle") == "chosen":
        c2 = type(ctx)(ctx.pid, "quick", ctx.seed)
        chosen_process_correspondence(c2)
        return "; ".join(v["what"] for v in c2.violations[:2]) or None
    return "re-run the check: " + "; ".join(b["what"] for b in data.get("broken", []))
