"""C16 — barriers/measurements are transparent; labelled barriers sample where they stand.

Tie: the real digital_tjm loop (through _run_strong_sim / _run_weak_sim, so that the barrier-counting rule is included)
runs with recording stubs for apply_single_qubit_gate / apply_two_qubit_gate / evaluate_observables, under a
BaseException wall-clock guard; the executed gate sequence and the positions of the samples are compared exactly with
Model/DigitalLoop.trajectory on the same instruction list.
Search: real numerics — results with and without barriers/measurements, sampled columns against Qiskit's Statevector.
"""
from __future__ import annotations

import contextlib

import numpy as np

import common
from common import g_bool, g_list

RULE = ("random circuits on 2..5 qubits, up to 14 instructions from {1q gate, 2q gate on (q,q+1)/(q+1,q), measure, plain "
        "barrier (partial/full, unlabelled or foreign label), full-width barrier labelled SAMPLE_OBSERVABLES in random case}; "
        "modes strong+sampling, strong without sampling, weak; non-trivial = contains a labelled barrier or a measure/plain "
        "barrier between gates; distinct by (instruction list, mode)")
TRUSTED = ["translator harness/gen/translate_layer.py (process_layer -> Gen/LayerGen.v; str.upper() modelled on ASCII letters), validated against the real process_layer on every run",
           "correspondence harness: recording stubs in digital_tjm's namespace; DAG abstracted as an instruction list",
           "modelled, not verified: Qiskit's DAGCircuit.front_layer/remove_op_node behave as documented (checked by the word "
           "correspondence on random circuits)"]
ASSUMES = ["labelled barriers span all qubits (a partial labelled barrier has no canonical 'state at the barrier')"]

HEADER = "From Coq Require Import List. Import ListNotations.\nFrom Yaqs Require Import Model.DigitalLoop."


def regenerate(ctx):
    """coq/Gen/LayerGen.v from the current source of process_layer (fail closed)"""
    from gen import translate_layer

    translate_layer.regenerate()


def gen_circuit(rng, n=None, m=None, gateset=("rx", "ry", "h", "cx", "rzz", "rxx"), allow_sbar=True, partial_sbar=False):
    """Returns (instruction list for the model, builder) where instrs = [(id, kind, qubits, name, param)]"""
    n = n or int(rng.integers(2, 6))
    m = m or int(rng.integers(1, 15))
    instrs = []
    for i in range(m):
        u = rng.random()
        if u < 0.35:
            instrs.append((i, "G1", [int(rng.integers(0, n))], str(rng.choice([g for g in gateset if g in ("rx", "ry", "h")])), 0.1 + 0.01 * i))
        elif u < 0.65:
            q = int(rng.integers(0, n - 1))
            qs = [q, q + 1] if rng.random() < 0.5 else [q + 1, q]
            instrs.append((i, "G2", qs, str(rng.choice([g for g in gateset if g in ("cx", "rzz", "rxx", "cz", "cp")])), 0.1 + 0.01 * i))
        elif u < 0.75:
            instrs.append((i, "Meas", [int(rng.integers(0, n))], "measure", None))
        elif u < 0.87 or not allow_sbar:
            k = int(rng.integers(1, n + 1))
            qs = sorted(int(x) for x in rng.choice(n, size=k, replace=False))
            # plain barriers: no label, other labels, and labels that merely CONTAIN the sampling label (padded with whitespace, prefixed)
            instrs.append((i, "Bar", qs, "barrier", str(rng.choice(["", "", "note", "sample", " sample_observables ", "SAMPLE_OBSERVABLES\n", "xSAMPLE_OBSERVABLES"]))))
        else:
            lab = str(rng.choice(["SAMPLE_OBSERVABLES", "sample_observables", "Sample_Observables"]))
            qs = list(range(n))
            if partial_sbar and rng.random() < 0.5:  # labelled barriers on a subset: several can stand side by side
                k = int(rng.integers(1, n + 1))
                qs = sorted(int(x) for x in rng.choice(n, size=k, replace=False))
            instrs.append((i, "SBar", qs, "barrier", lab))
            if partial_sbar and len(qs) < n and rng.random() < 0.5:
                rest = [q for q in range(n) if q not in qs]
                instrs.append((i + 100, "SBar", rest, "barrier", lab))
    return n, instrs


def build_qiskit(n, instrs):
    from qiskit import QuantumCircuit

    qc = QuantumCircuit(n, n)
    for (i, kind, qs, name, par) in instrs:
        if kind == "G1":
            if name == "h":
                qc.h(qs[0])
            else:
                getattr(qc, name)(par, qs[0])
        elif kind == "G2":
            if name in ("cx", "cz"):
                getattr(qc, name)(qs[0], qs[1])
            else:
                getattr(qc, name)(par, qs[0], qs[1])
        elif kind == "Meas":
            qc.measure(qs[0], qs[0])
        elif par:
            qc.barrier(*qs, label=par)
        else:
            qc.barrier(*qs)
    return qc


def g_instrs(instrs):
    return g_list([f"mk {i}%nat {kind} {g_list([str(q) + '%nat' for q in qs])}" for (i, kind, qs, _, _) in instrs])


@contextlib.contextmanager
def loop_stubs(instrs):
    import mqt.yaqs.digital.digital_tjm as D
    from mqt.yaqs.core.data_structures.networks import MPS

    saved = (D.apply_single_qubit_gate, D.apply_two_qubit_gate, MPS.evaluate_observables, MPS.normalize, MPS.measure_shots)

    class Events(list):
        pass

    events = Events()
    events.gauge = []  # the gauge word of the run: one/two-site gates, restorations of form B, reads (observables / shots)
    pool = {}
    for (i, kind, qs, name, par) in instrs:
        if kind in ("G1", "G2"):
            pool.setdefault((name, tuple(qs)), []).append(i)

    def ident(node):
        key = (node.op.name, tuple(q._index for q in node.qargs))  # noqa: SLF001
        lst = pool.get(key, [])
        return lst.pop(0) if lst else -1

    def g1(state, node, *extra, **kw):
        events.append(("G", ident(node)))
        events.gauge.append("GOne")

    def g2(state, node, sim_params, *extra, **kw):
        events.append(("G", ident(node)))
        events.gauge.append("GTwo")
        a, b = (q._index for q in node.qargs)  # noqa: SLF001
        return min(a, b), max(a, b)

    def ev(self, p, results, column_index=0, *xa, **xk):
        events.append(("S", int(column_index)))
        events.gauge.append("GRead")

    def norm(self, form="B", decomposition="QR", *xa, **xk):
        events.gauge.append("GRestore" if form == "B" else f"normalize({form})")

    def shots(self, shots, *xa, **xk):
        events.gauge.append("GRead")
        return {0: int(shots)}

    D.apply_single_qubit_gate, D.apply_two_qubit_gate, MPS.evaluate_observables, MPS.normalize, MPS.measure_shots = g1, g2, ev, norm, shots
    try:
        yield events
    finally:
        D.apply_single_qubit_gate, D.apply_two_qubit_gate, MPS.evaluate_observables, MPS.normalize, MPS.measure_shots = saved


HANGS = {"n": 0}
GAUGE = {}  # id(event list) -> gauge word of that run


def run_impl_trace(n, instrs, mode, limit=6.0):
    import mqt.yaqs.simulator as S
    from mqt.yaqs.core.data_structures.networks import MPS
    from mqt.yaqs.core.data_structures.simulation_parameters import Observable, StrongSimParams, WeakSimParams

    qc = build_qiskit(n, instrs)
    if HANGS["n"] >= 3:  # three replays of a non-terminating loop are enough; do not spend the budget on more
        limit = 1.0
    with loop_stubs(instrs) as events:
        try:
            with common.time_limit(limit):
                if mode == "weak":
                    p = WeakSimParams(shots=3, show_progress=False)
                    S._run_weak_sim(MPS(n), qc, p, None, parallel=False)  # noqa: SLF001
                    cols = None
                else:
                    p = StrongSimParams([Observable("z", 0)], sample_layers=(mode == "sampling"), show_progress=False)
                    S._run_strong_sim(MPS(n), qc, p, None, parallel=False)  # noqa: SLF001
                    cols = int(np.shape(p.observables[0].trajectories)[1])
            out = list(events)
            GAUGE[id(out)] = list(events.gauge)
            return out, cols, None
        except common.HardTimeout:
            HANGS["n"] += 1
            return list(events), None, "TIMEOUT"
        except Exception as e:  # noqa: BLE001
            return list(events), None, f"EXC:{type(e).__name__}:{e}"


def model_events(v):
    if v is None:
        return None
    out = []
    for e in v[1] if isinstance(v, common.App) and v[0] == "Some" else v:
        out.append(("S",) if e[0] == "ESample" else ("G", e[1]))
    return out


def layer_rule_correspondence(ctx):
    """validation of the translator: the real process_layer on the front layers of random circuits; for every node, the group the
    source puts it into vs Gen/LayerGen.classify_src evaluated on the node's description (name, label, number of qubits, indices),
    and the order inside each group vs the generated sort keys"""
    from qiskit.converters import circuit_to_dag

    import mqt.yaqs.digital.digital_tjm as D

    hdr = ("From Coq Require Import List String. Import ListNotations.\nFrom Yaqs Require Import Model.DigitalLoop Model.LayerRule Gen.LayerGen.\n"
           "Local Open Scope string_scope.")
    cases, exprs, impl = [], [], []
    for k in range(ctx.scale(25, 300)):
        n, instrs = gen_circuit(ctx.rng, partial_sbar=(k % 2 == 0))
        dag = circuit_to_dag(build_qiskit(n, instrs))
        for _ in range(40):
            if not dag.op_nodes():
                break
            layer = list(dag.front_layer())
            descr = {}
            for nd in layer:
                qi = [q._index for q in nd.qargs]  # noqa: SLF001
                lab = getattr(nd.op, "label", None)
                descr[nd._node_id] = (nd.op.name, lab, len(qi), qi[0] if qi else 0, qi[1] if len(qi) > 1 else 0)
            try:
                singles, evens, odds, sbs = D.process_layer(dag)
            except Exception as e:  # noqa: BLE001
                ctx.mismatch("process_layer raised on a circuit of one- and two-qubit gates", {"qubits": n, "instrs": [list(x) for x in instrs]}, repr(e), "no exception", key="layer-rule")
                break
            left = {x._node_id for x in dag.op_nodes()}
            group = {}
            for lst, c in ((singles, "CSingle"), (evens, "CEven"), (odds, "COdd"), (sbs, "CSample")):
                for nd in lst:
                    group[nd._node_id] = c if nd._node_id not in group else "twice"
            for nd in layer:
                got = group.get(nd._node_id, "CDrop" if nd._node_id not in left else "left in the DAG, in no group")
                nm, lab, nq, q0, q1 = descr[nd._node_id]
                if lab is not None and (not str(lab).isascii() or '"' in str(lab)):
                    continue
                gl = "None" if lab is None else f'(Some "{lab}")'
                exprs.append(f'classify_src {{| d_name := "{nm}"; d_label := {gl}; d_nq := {nq}%nat; d_q0 := {q0}%nat; d_q1 := {q1}%nat |}}')
                impl.append(got)
                cases.append({"name": nm, "label": lab, "qubits": [q0, q1][:max(nq, 1)] if nq <= 2 else nq})
            for lst, keyname in ((singles, "single"), (evens, "even"), (odds, "odd")):
                ks = [descr[nd._node_id] for nd in lst]
                keys = [d[3] if keyname == "single" else min(d[3], d[4]) for d in ks]
                if keys != sorted(keys):
                    ctx.mismatch(f"order of the {keyname} group vs LayerGen.{keyname}_key_src", {"qubits": n, "instrs": [list(x) for x in instrs]}, keys, sorted(keys), key="layer-rule")
            for nd in list(singles) + list(evens) + list(odds) + list(sbs):
                dag.remove_op_node(nd)
    vals = common.coq_eval_sharded(hdr, exprs, tag="c16l")
    for c, got, v in zip(cases, impl, vals):
        want = v[0] if isinstance(v, common.App) else str(v)
        ctx.case(nontrivial_key=("layer", c["name"], str(c["label"]), str(c["qubits"])) if c["name"] in ("barrier", "measure") or isinstance(c["qubits"], list) and len(c["qubits"]) == 2 else None, validated=True)
        ctx.count("layer_rule_nodes")
        if got != want:
            ctx.mismatch("process_layer's treatment of a front-layer node vs Gen/LayerGen.classify_src", c, got, want, key="layer-rule")


def correspond(ctx):
    ctx.rules.append(RULE)
    layer_rule_correspondence(ctx)
    corpus = [
        (3, [(0, "G1", [0], "rx", 0.1), (1, "SBar", [0, 1, 2], "barrier", "SAMPLE_OBSERVABLES"), (2, "G2", [1, 2], "cx", 0.12)]),
        (2, [(0, "SBar", [0, 1], "barrier", "sample_observables"), (1, "SBar", [0, 1], "barrier", "SAMPLE_OBSERVABLES")]),
        (2, [(0, "Meas", [0], "measure", None), (1, "G2", [1, 0], "rzz", 0.11), (2, "Bar", [1], "barrier", "note")]),
        (4, [(0, "G1", [0], "rx", 0.1), (1, "SBar", [0, 1], "barrier", "SAMPLE_OBSERVABLES"), (2, "SBar", [2, 3], "barrier", "SAMPLE_OBSERVABLES"),
             (3, "G2", [1, 2], "cx", 0.1), (4, "SBar", [0], "barrier", "sample_observables")]),
    ]
    cases = []
    for k, (n, instrs) in enumerate(corpus):
        for mode in ("sampling", "plain", "weak"):
            cases.append((n, instrs, mode))
    for k in range(ctx.scale(150, 3000)):
        n, instrs = gen_circuit(ctx.rng, partial_sbar=(k % 2 == 0))
        instrs = [(j, kd, q, nm, pr) for j, (_, kd, q, nm, pr) in enumerate(instrs)]
        cases.append((n, instrs, ("sampling", "plain", "weak")[k % 3]))
    exprs, impl = [], []
    for (n, instrs, mode) in cases:
        impl.append(run_impl_trace(n, instrs, mode))
        exprs.append(f"(trajectory {g_bool(mode == 'sampling')} {g_instrs(instrs)}, columns_allocated {g_bool(mode == 'sampling')} {g_instrs(instrs)})")
    vals = common.coq_eval_sharded(HEADER, exprs, tag="c16")
    MODE = {"sampling": "StrongSampling", "plain": "StrongPlain", "weak": "Weak"}
    gvals = common.coq_eval_sharded(HEADER, [f"traj_word {MODE[mode]} {g_instrs(instrs)}" for (n, instrs, mode) in cases], tag="c16g")
    for (n, instrs, mode), (events, cols, err), gv in zip(cases, impl, gvals):
        if err or id(events) not in GAUGE:
            continue
        want = [x[0] if isinstance(x, common.App) else str(x) for x in gv[1]] if isinstance(gv, common.App) and gv[0] == "Some" else None
        got = GAUGE.pop(id(events))
        ctx.count("gauge_words")
        if got != want:
            ctx.mismatch("gauge word of the noise-free trajectory (gates, restorations of form B, reads) vs DigitalLoop.traj_word",
                         {"qubits": n, "instrs": [list(x) for x in instrs], "mode": mode}, got, want, key="gauge-word")
    for (n, instrs, mode), (events, cols, err), (tr, mcols) in zip(cases, impl, vals):
        mev = model_events(tr)
        kinds = [k for (_, k, _, _, _) in instrs]
        nontriv = "SBar" in kinds or any(k in ("Meas", "Bar") for k in kinds[:-1])
        ctx.case(nontrivial_key=(mode, tuple((k, tuple(q)) for (_, k, q, _, _) in instrs)) if nontriv else None, validated=True,
                 sample={"qubits": n, "mode": mode, "instructions": [(k, q) for (_, k, q, _, _) in instrs], "events": events}
                 if "SBar" in kinds and len(instrs) > 4 else None)
        ctx.count("mode_" + mode)
        ctx.count("has_labelled_barrier" if "SBar" in kinds else "no_labelled_barrier")
        desc = {"qubits": n, "instrs": [list(x) for x in instrs], "mode": mode}
        if err == "TIMEOUT":
            ctx.violation(f"hang:{mode}", f"digital_tjm did not terminate within the wall-clock limit ({mode} mode) on a circuit with "
                          f"{kinds.count('SBar')} labelled barrier(s)", {"oracle": "terminates", **desc})
            continue
        if err:
            ctx.mismatch("digital_tjm-loop raised", desc, err, mev)
            continue
        if mode == "weak":
            impl_ev = [e if e[0] == "G" else ("S",) for e in events]
            want = [e for e in mev if e[0] == "G"]  # weak mode evaluates no observables; measure_shots at the end
            if impl_ev != want:
                ctx.mismatch("digital_tjm-loop-vs-DigitalLoop.trajectory", desc, events, mev)
            continue
        impl_ev = [e if e[0] == "G" else ("S",) for e in events]
        if impl_ev != mev:
            ctx.mismatch("digital_tjm-loop-vs-DigitalLoop.trajectory", desc, events, mev)
        scols = [e[1] for e in events if e[0] == "S"]
        if cols != mcols:
            ctx.mismatch("allocated columns vs DigitalLoop.columns_allocated", desc, cols, mcols)
        want_cols = list(range(cols)) if mode == "sampling" else [0]
        if scols != want_cols:
            ctx.violation("columns", f"strong mode ({mode}) wrote result columns {scols}, expected {want_cols}",
                          {"oracle": "columns", **desc})
    history_correspondence(ctx)


def run_history_trace(n, circuits, ctor_mid, sampling=True):
    """one StrongSimParams object (constructed with num_mid_measurements = ctor_mid) through _run_strong_sim for a sequence
    of circuits; returns the number of result columns of each run (or the error)"""
    import mqt.yaqs.simulator as S
    from mqt.yaqs.core.data_structures.networks import MPS
    from mqt.yaqs.core.data_structures.simulation_parameters import Observable, StrongSimParams

    p = StrongSimParams([Observable("z", 0)], sample_layers=sampling, num_mid_measurements=ctor_mid, show_progress=False)
    out = []
    for instrs in circuits:
        qc = build_qiskit(n, instrs)
        with loop_stubs(instrs):
            try:
                with common.time_limit(6.0):
                    S._run_strong_sim(MPS(n), qc, p, None, parallel=False)  # noqa: SLF001
                out.append(int(np.shape(p.observables[0].trajectories)[1]))
            except common.HardTimeout:
                out.append("TIMEOUT")
                break
            except Exception as e:  # noqa: BLE001
                out.append(f"EXC:{type(e).__name__}")
    return out


def history_correspondence(ctx):
    from common import g_list, g_nat

    cases, exprs, impl = [], [], []
    for k in range(ctx.scale(25, 400)):
        n = int(ctx.rng.integers(2, 5))
        circuits = []
        for _ in range(int(ctx.rng.integers(2, 5))):
            _, instrs = gen_circuit(ctx.rng, n=n, m=int(ctx.rng.integers(1, 7)))
            circuits.append([(j, kd, q, nm, pr) for j, (_, kd, q, nm, pr) in enumerate(instrs)])
        ctor = int(ctx.rng.integers(0, 5))
        sampling = k % 5 != 4
        labelled = [sum(1 for x in c if x[1] == "SBar") for c in circuits]
        impl.append(run_history_trace(n, circuits, ctor, sampling))
        p0 = f"{{| sample_layers := {g_bool(sampling)}; num_mid := {g_nat(ctor)} |}}"
        exprs.append("[" + "; ".join(f"snd (run_layers {g_nat(labelled[j])} (layers_history {g_list([g_nat(x) for x in labelled[:j]])} {p0}))"
                                      for j in range(len(circuits))) + "]")
        cases.append(dict(qubits=n, labelled=labelled, ctor_mid=ctor, sampling=sampling, circuits=[[list(x) for x in c] for c in circuits]))
    vals = common.coq_eval_sharded("From Coq Require Import List. Import ListNotations.\nFrom Yaqs Require Import Model.Params.", exprs, tag="c16h")
    for c, got, want in zip(cases, impl, vals):
        ctx.case(nontrivial_key=("hist", tuple(c["labelled"]), c["ctor_mid"], c["sampling"]) if len(set(c["labelled"])) > 1 or c["ctor_mid"] else None, validated=True)
        ctx.count("history_traces")
        if got != list(want):
            ctx.mismatch("result columns of successive runs on one parameter object vs Params.run_layers", c, got, list(want), key="history")
            j = next((j for j, (a, b) in enumerate(zip(got, list(want))) if a != b), len(got) - 1)
            ctx.violation("history-columns", f"run {j + 1} on a reused StrongSimParams (labelled barriers per circuit {c['labelled']}, constructed with "
                          f"num_mid_measurements={c['ctor_mid']}) has {got[j] if j < len(got) else 'no'} result columns, expected {list(want)[j]}",
                          {"oracle": "history", **c})


# ---- the property on real numerics ----------------------------------------------------------------------------
def numeric_oracle(args):
    from qiskit import QuantumCircuit
    from qiskit.quantum_info import SparsePauliOp, Statevector

    from mqt.yaqs import simulator
    from mqt.yaqs.core.data_structures.networks import MPS
    from mqt.yaqs.core.data_structures.simulation_parameters import Observable, StrongSimParams

    n, instrs = args["n"], [tuple(x) for x in args["instrs"]]
    gates = [x for x in instrs if x[1] in ("G1", "G2")]

    pvm = args.get("pvm")  # bitstring projectors instead of Pauli observables (the two kinds cannot be mixed in one run)

    def run(ins, sampling, p=None):
        qc = build_qiskit(n, ins)
        if p is None:
            obs = [Observable(b) for b in pvm] if pvm else [Observable("z", q) for q in range(n)] + [Observable("x", 0)]
            p = StrongSimParams(obs, sample_layers=sampling, show_progress=False, threshold=1e-14)
        with common.time_limit(30):
            simulator.run(MPS(n), qc, p, None, parallel=False)
        return np.array([np.real(o.results) for o in p.observables])

    def exact(prefix):
        qc = build_qiskit(n, [x for x in prefix if x[1] in ("G1", "G2")])
        sv = Statevector(qc)
        if pvm:  # probability of the bitstring, character i = qubit i (Qiskit: amplitude index = sum_i b_i 2^i)
            return np.array([float(abs(sv.data[sum(int(c) << i for i, c in enumerate(b))]) ** 2) for b in pvm])
        vals = []
        for q in range(n):
            lab = ["I"] * n
            lab[n - 1 - q] = "Z"
            vals.append(float(np.real(sv.expectation_value(SparsePauliOp("".join(lab))))))
        lab = ["I"] * n
        lab[n - 1] = "X"
        vals.append(float(np.real(sv.expectation_value(SparsePauliOp("".join(lab))))))
        return np.array(vals)

    if args.get("history") is not None:
        # the same parameter object (constructed with an arbitrary num_mid_measurements) has been used for other circuits before
        obs = [Observable("z", q) for q in range(n)] + [Observable("x", 0)]
        shared = StrongSimParams(obs, sample_layers=True, num_mid_measurements=int(args.get("ctor_mid", 0)), show_progress=False, threshold=1e-14)
        try:
            for prev in args["history"]:
                run([tuple(x) for x in prev], True, shared)
            sampled = run(instrs, True, shared)
        except common.HardTimeout:
            return "simulator.run did not terminate within 30 s"
        except Exception as e:  # noqa: BLE001
            return (f"a run on a parameter object used before (labelled barriers of the earlier circuits: "
                    f"{[sum(1 for x in pr if x[1] == 'SBar') for pr in args['history']]}, constructor value {args.get('ctor_mid', 0)}) raised {type(e).__name__}: {e}")
        sb_pos = [k for k, x in enumerate(instrs) if x[1] == "SBar"]
        if sampled.shape[1] != len(sb_pos) + 2:
            return (f"{sampled.shape[1]} result columns for {len(sb_pos)} labelled barriers on a parameter object used before "
                    f"(earlier circuits had {[sum(1 for x in pr if x[1] == 'SBar') for pr in args['history']]}, constructor value {args.get('ctor_mid', 0)})")
        refs = [exact([])] + [exact(instrs[:k]) for k in sb_pos] + [exact(instrs)]
        for c, ref in enumerate(refs):
            if np.max(np.abs(sampled[:, c] - ref)) > 1e-6:
                return f"reused parameter object: column {c} is not the expectation value of the state at that sampling point"
        return None
    try:
        full_plain = run(instrs, False)
        stripped = run(gates, False)
        sampled = run(instrs, True)
    except common.HardTimeout:
        return "simulator.run did not terminate within 30 s"
    except Exception as e:  # noqa: BLE001
        return f"simulator.run raised {type(e).__name__}: {e} (observables: {'bitstring projectors ' + str(pvm) if pvm else 'Pauli'})"
    if np.max(np.abs(full_plain[:, -1] - stripped[:, -1])) > 1e-8:
        return "results differ between the circuit and the same circuit without barriers/measurements"
    if np.max(np.abs(sampled[:, -1] - stripped[:, -1])) > 1e-8:
        return "final column with layer sampling differs from the run without barriers"
    sb_pos = [k for k, x in enumerate(instrs) if x[1] == "SBar"]
    if sampled.shape[1] != len(sb_pos) + 2:
        return f"{sampled.shape[1]} result columns for {len(sb_pos)} labelled barriers"
    refs = [exact([])] + [exact(instrs[:k]) for k in sb_pos] + [exact(instrs)]
    for c, ref in enumerate(refs):
        if np.max(np.abs(sampled[:, c] - ref)) > 1e-6:
            return f"column {c} is not the expectation value of the state at that sampling point (max diff {np.max(np.abs(sampled[:, c] - ref)):.2e})"
    return None


class _Impossible(Exception):
    pass


class _Stop:
    """forces one outcome string through the sampling chain; stops at the first site where that outcome cannot be drawn"""

    def __init__(self, script):
        self.script, self.k, self.ps = list(script), 0, []

    def choice(self, n, p=None):
        p = np.asarray(p, dtype=float)
        self.ps.append(p.copy())
        c = int(self.script[self.k])
        self.k += 1
        if not np.isfinite(p[c]) or p[c] < 1e-14:
            if not np.all(np.isfinite(p)):
                raise ValueError("a conditional probability vector handed to choice() is not finite")
            raise _Impossible
        return c


def weak_numeric_oracle(args):
    """weak mode on real numerics: the distribution from which the shots of a noise-free run are drawn (every outcome string forced
    once through the sampling chain of the state that digital_tjm hands to measure_shots) equals |amplitude|^2 of the exact final
    state, for the circuit as given and with its barriers/measurements removed"""
    import copy
    import itertools

    from qiskit.quantum_info import Statevector

    from mqt.yaqs import simulator
    from mqt.yaqs.core.data_structures.networks import MPS
    from mqt.yaqs.core.data_structures.simulation_parameters import WeakSimParams
    n, instrs = args["n"], [tuple(x) for x in args["instrs"]]
    gates = [x for x in instrs if x[1] in ("G1", "G2")]
    exact = np.abs(Statevector(build_qiskit(n, gates)).data) ** 2  # bit i of the index = qubit i
    real_shots = MPS.measure_shots
    for label, ins in (("the circuit as given", instrs), ("the circuit without barriers/measurements", gates)):
        seen = []

        def spy(self, shots, *a, _seen=seen, **k):
            _seen.append(copy.deepcopy(self))
            return real_shots(self, shots, *a, **k)

        MPS.measure_shots = spy
        try:
            p = WeakSimParams(shots=3, show_progress=False, threshold=1e-14)
            with common.time_limit(30):
                simulator.run(MPS(n), build_qiskit(n, ins), p, None, parallel=False)
        except common.HardTimeout:
            return f"weak mode, {label}: simulator.run did not terminate within 30 s"
        except Exception as e:  # noqa: BLE001
            return f"weak mode, {label}: simulator.run raised {type(e).__name__}: {e}"
        finally:
            MPS.measure_shots = real_shots
        if sum(p.results.values()) != 3:
            return f"weak mode, {label}: counts sum to {sum(p.results.values())} for 3 shots"
        if len(seen) != 1:
            return f"weak mode, {label}: measure_shots was called {len(seen)} times in a noise-free run"
        dist = np.zeros(2**n)
        for bits in itertools.product([0, 1], repeat=n):
            sr = _Stop(bits)
            try:
                key = seen[0].measure_single_shot("Z", rng=sr)
            except _Impossible:
                continue  # this outcome string has conditional probability 0 at some site: it is never drawn
            except Exception as e:  # noqa: BLE001
                return f"weak mode, {label}: sampling outcome {bits} from the final state raised {type(e).__name__}: {e}"
            dist[key] += float(np.prod([q[b] for q, b in zip(sr.ps, bits)]))
        if not np.all(np.isfinite(dist)) or np.max(np.abs(dist - exact)) > 1e-7:
            k = int(np.nanargmax(np.abs(dist - exact))) if np.all(np.isfinite(dist)) else 0
            return (f"weak mode, {label}: the shots are drawn from a distribution that gives outcome {k:0{n}b} (bit i = qubit i) probability "
                    f"{dist[k]:.6f}; the exact final state gives {exact[k]:.6f}")
    return None


def search(ctx):
    # weak mode: circuits that end in a two-qubit gate away from the left edge (nothing after it), with and without trailing barriers
    for k in range(ctx.scale(6, 40)):
        n, instrs = gen_circuit(ctx.rng, n=int(ctx.rng.integers(3, 5)), m=int(ctx.rng.integers(3, 9)), gateset=("rx", "ry", "h", "cx", "rzz", "rxx"))
        instrs = list(instrs)
        if k % 2 == 0:
            while instrs and instrs[-1][1] != "G2":
                instrs.pop()
            q = int(ctx.rng.integers(1, n - 1))
            if not instrs or k % 4 == 0:
                instrs += [(len(instrs), "G1", [0], "h", 0.1), (len(instrs) + 1, "G2", [0, 1], "cx", 0.1), (len(instrs) + 2, "G2", [q, q + 1], "rxx", 0.9)]
        args = {"n": n, "instrs": [list(x) for x in instrs]}
        why = weak_numeric_oracle(args)
        ctx.case(nontrivial_key=("weaknum", k))
        ctx.count("weak_numeric_runs")
        if instrs and instrs[-1][1] == "G2":
            ctx.count("weak_numeric_ending_in_two_qubit_gate")
        if why:
            ctx.violation("hang:weak-numeric" if "terminate" in why else "weak-numeric", why, {"oracle": "weak-numeric", "args": args})
    for k in range(ctx.scale(8, 80)):
        n, instrs = gen_circuit(ctx.rng, n=int(ctx.rng.integers(2, 5)), m=int(ctx.rng.integers(3, 11)), gateset=("rx", "ry", "h", "cx", "rzz", "rxx"))
        if k == 0:
            n, instrs = 3, [(0, "G1", [0], "h", 0.1), (1, "G2", [0, 1], "cx", 0.1), (2, "SBar", [0, 1, 2], "barrier", "sample_observables"),
                            (3, "G2", [2, 1], "rxx", 0.7), (4, "Meas", [0], "measure", None), (5, "G1", [2], "ry", 0.4)]
        if k == 2:  # a labelled barrier as the last instruction, and one followed only by measurements of every qubit
            n, instrs = 3, [(0, "G1", [0], "h", 0.1), (1, "G2", [0, 1], "cx", 0.1), (2, "G1", [2], "ry", 0.6), (3, "SBar", [0, 1, 2], "barrier", "SAMPLE_OBSERVABLES")]
        if k == 4:
            n, instrs = 2, [(0, "G1", [1], "ry", 0.8), (1, "SBar", [0, 1], "barrier", "Sample_Observables"), (2, "G2", [0, 1], "cx", 0.1),
                            (3, "SBar", [0, 1], "barrier", "sample_observables"), (4, "Meas", [0], "measure", None), (5, "Meas", [1], "measure", None)]
        if k == 5:  # plain barriers and measurements only at the end, after the last gate
            n, instrs = 3, [(0, "G1", [1], "h", 0.1), (1, "G2", [1, 2], "rzz", 0.5), (2, "Bar", [0, 1, 2], "barrier", ""), (3, "Meas", [2], "measure", None)]
        args = {"n": n, "instrs": [list(x) for x in instrs]}
        if k % 3 == 1:
            hist = []
            for _ in range(int(ctx.rng.integers(0, 3))):
                _, prev = gen_circuit(ctx.rng, n=n, m=int(ctx.rng.integers(2, 8)), gateset=("rx", "ry", "h", "cx", "rzz", "rxx"))
                hist.append([list(x) for x in prev])
            args.update(history=hist, ctor_mid=int(ctx.rng.integers(0, 5)))
            ctx.count("history_runs")
        elif k % 3 == 0:
            # bitstring projectors sampled at the labelled barriers (k = 0: on an entangled state with gates still to come)
            args["pvm"] = ["".join(str(int(b)) for b in ctx.rng.integers(0, 2, size=n)) for _ in range(3)] + ["0" * n, "1" * n]
            ctx.count("bitstring_observables")
        why = numeric_oracle(args)
        kinds = [x[1] for x in instrs]
        ctx.case(nontrivial_key=("num", k) if any(kd in ("SBar", "Bar", "Meas") for kd in kinds) else None)
        ctx.count("numeric_runs")
        if why:
            key = "hang:numeric" if "terminate" in why else "numeric"
            ctx.violation(key, why, {"oracle": "numeric", "args": args})


def replay(ctx, data):
    rp = data.get("replay", data)
    if rp.get("oracle") == "numeric":
        return numeric_oracle(rp["args"])
    if rp.get("oracle") == "weak-numeric":
        return weak_numeric_oracle(rp["args"])
    if rp.get("oracle") == "history":
        got = run_history_trace(rp["qubits"], [[tuple(x) for x in c] for c in rp["circuits"]], rp["ctor_mid"], rp["sampling"])
        want = [(lb + 2 if rp["sampling"] else 1) for lb in rp["labelled"]]
        return f"columns per run {got}, expected {want}" if got != want else None
    if rp.get("oracle") in ("terminates", "columns"):
        ev, cols, err = run_impl_trace(rp["qubits"], [tuple(x) for x in rp["instrs"]], rp["mode"])
        if err == "TIMEOUT":
            return "does not terminate"
        if rp["oracle"] == "columns":
            sc = [e[1] for e in ev if e[0] == "S"]
            return f"columns {sc}" if sc != (list(range(cols)) if rp["mode"] == "sampling" else [0]) else None
        return None
    return "re-run the check: " + "; ".join(b["what"] for b in data.get("broken", []))
