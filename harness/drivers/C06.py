"""C06 — all analog solvers describe the same system and index sites the same way.

Tie: for every basis string of length 2..4 and every solver (TJM order 1/2, MCWF, Lindblad): <Z_i> reported at time 0 and
after a short evolution under a site-diagonal Hamiltonian vs Model/SiteOrder (z_sign at solver_state_idx) — exact signs;
MPS.to_vec() index of the basis string vs vec_idx; index of the non-zero entry of MCWF's starting vector vs
solver_state_idx.
Search: the three solvers on asymmetric initial states (basis strings, Neel, wall, product states) with site-resolved
observables, random Hamiltonians and one-site noise, against the dense master equation / dense unitary evolution.
"""
from __future__ import annotations

import itertools

import numpy as np

import common
from common import g_list
from drivers import dense, lottery

RULE = ("basis strings of length 2..4 (exhaustive) x solvers; searches: asymmetric product / basis / Neel / wall states, random "
        "ising/heisenberg Hamiltonians, one-site noise on a non-central site; non-trivial = the state is not invariant under "
        "reversing the chain; distinct by (string/state, solver)")
TRUSTED = ["dense master-equation / unitary reference (drivers/dense.py, scipy expm)",
           "modelled, not verified: RK45 meeting its tolerance; the TJM/MCWF time-stepping error (bounded by the tolerances used)"]
ASSUMES = ["local dimension 2 (the dense solvers embed 2x2 operators)"]

HEADER = "From Coq Require Import List. Import ListNotations.\nFrom Yaqs Require Import Model.SiteOrder."
SOLVERS = [("TJM", 1), ("TJM", 2), ("MCWF", 1), ("Lindblad", 1)]
# the integrator order is a setting of the tensor-network solver; the dense solvers must not care what it says
DENSE_WITH_ORDER2 = [("MCWF", 2), ("Lindblad", 2)]


def run_solver(solver, order, L, state_kw, H, nm, obs_specs, T=0.2, dt=0.05, num_traj=1, state_obj=None):
    from mqt.yaqs import simulator
    from mqt.yaqs.core.data_structures.networks import MPS
    from mqt.yaqs.core.data_structures.simulation_parameters import AnalogSimParams, Observable

    from mqt.yaqs.core.libraries.gate_library import BaseGate

    # two-letter names of two different Paulis ("xz", ...) are built from their 4x4 matrix (the library names only xx, yy, zz)
    obs = [Observable(BaseGate(np.kron(dense.PAULI[n[0]], dense.PAULI[n[1]])), s) if len(n) == 2 and n[0] != n[1] and set(n) <= set("xyz")
           else Observable(n, s) for n, s in obs_specs]
    p = AnalogSimParams(obs, elapsed_time=T, dt=dt, order=order, solver=solver, sample_timesteps=True, show_progress=False,
                        threshold=1e-13, num_traj=num_traj)
    with common.time_limit(200):
        simulator.run(MPS(L, **state_kw) if state_obj is None else state_obj, H, p, nm, parallel=False)
    return np.array([np.real(o.results) for o in obs])


def correspond(ctx):
    from mqt.yaqs.analog.mcwf import preprocess_mcwf
    from mqt.yaqs.core.data_structures.networks import MPO, MPS
    from mqt.yaqs.core.data_structures.simulation_parameters import AnalogSimParams, Observable

    ctx.rules.append(RULE)
    liouvillian_correspondence(ctx)
    cases, exprs, impl = [], [], []
    lengths = (2, 3) if ctx.quick else (2, 3, 4)
    for L in lengths:
        H = MPO.hamiltonian(length=L, one_body=[(0.3, "Z")], two_body=[(0.2, "Z", "Z")])  # site-diagonal: <Z_i> is conserved
        for bits in itertools.product([0, 1], repeat=L):
            s = "".join(map(str, bits))
            tv = MPS(L, state="basis", basis_string=s).to_vec()
            nz = int(np.argmax(np.abs(tv)))
            par = AnalogSimParams([Observable("z", 0)], elapsed_time=0.1, dt=0.1, solver="MCWF", show_progress=False)
            mc = int(np.argmax(np.abs(preprocess_mcwf(MPS(L, state="basis", basis_string=s), H, None, par).psi_initial)))
            for solver, order in SOLVERS:
                res = run_solver(solver, order, L, dict(state="basis", basis_string=s), H, None, [("z", i) for i in range(L)], T=0.1, dt=0.05)
                signs = [[bool(v < 0) for v in res[:, c]] for c in (0, -1)]
                impl.append((nz, mc, signs))
                sig = g_list([f"{b}%nat" for b in bits])
                exprs.append(f"(vec_idx {sig}, solver_state_idx {sig}, map (fun i => z_sign {L}%nat i (solver_state_idx {sig})) (seq 0 {L}))")
                cases.append((s, solver, order))
    # operators: Z_i as an MPO, converted with to_matrix and to_sparse_matrix (the latter feeds Lindblad and MCWF)
    zc, ze, zi = [], [], []
    for L in lengths:
        for i in range(L):
            m = MPO()
            m.from_pauli_sum(terms=[(1.0, f"Z{i}")], length=L)
            dd = np.real(np.diag(m.to_matrix()))
            ds = np.real(m.to_sparse_matrix().diagonal())
            zi.append(([bool(x < 0) for x in dd], [bool(x < 0) for x in ds]))
            ze.append(f"map (fun k => z_sign {L}%nat {i}%nat k) (seq 0 {2**L})")
            zc.append((L, i))
    zv = common.coq_eval_sharded(HEADER, ze, tag="c06z")
    for (L, i), (dd, ds), mz in zip(zc, zi, zv):
        ctx.case(nontrivial_key=("embed", L, i) if L > 2 else None, validated=True)
        ctx.count("embedded_Z")
        if dd != mz:
            ctx.mismatch("MPO.to_matrix of Z_i vs SiteOrder.z_sign", {"L": L, "i": i}, dd, mz)
        if ds != mz:
            ctx.mismatch("MPO.to_sparse_matrix of Z_i vs SiteOrder.z_sign", {"L": L, "i": i}, ds, mz)
    # two-site operators embedded on an adjacent pair by the four embedding front-ends of the dense solvers
    import mqt.yaqs.analog.utils as AU
    from mqt.yaqs.core.libraries.gate_library import BaseGate

    pc, pe, pi = [], [], []
    tag = np.diag([0.0, 1.0, 2.0, 3.0]).astype(complex)  # entry p of the diagonal identifies the pair of digits (2*d_s + d_s+1)
    for L in (2, 3, 4, 5):
        for s0 in range(L - 1):
            obs = Observable("zz", [s0, s0 + 1])
            obs.gate = BaseGate(tag)
            proc = {"sites": [s0, s0 + 1], "matrix": tag}
            got = {"observable_dense": np.real(np.diag(AU._embed_observable_dense(obs, L))),  # noqa: SLF001
                   "observable_sparse": np.real(AU._embed_observable_sparse(obs, L).diagonal()),  # noqa: SLF001
                   "operator_dense": np.real(np.diag(AU._embed_operator_dense(proc, L))),  # noqa: SLF001
                   "operator_sparse": np.real(AU._embed_operator_sparse(proc, L).diagonal())}  # noqa: SLF001
            pi.append({k_: [int(round(x)) for x in v_] for k_, v_ in got.items()})
            pe.append(f"map (fun k => pair_digit {L}%nat {s0}%nat k) (seq 0 {2**L})")
            pc.append((L, s0))
    pv = common.coq_eval_sharded(HEADER, pe, tag="c06p")
    for (L, s0), got, mp in zip(pc, pi, pv):
        ctx.case(nontrivial_key=("pair", L, s0) if 2 * s0 != L - 2 else None, validated=True)
        ctx.count("embedded_pairs")
        for k_, v_ in got.items():
            if v_ != list(mp):
                ctx.mismatch(f"_embed_{k_} of a two-site operator vs SiteOrder.pair_digit", {"L": L, "sites": [s0, s0 + 1]}, v_, list(mp), key="pair-embedding")
    vals = common.coq_eval_sharded(HEADER, exprs, tag="c06")
    for (s, solver, order), (nz, mc, signs), (mv, ms, mz) in zip(cases, impl, vals):
        ctx.case(nontrivial_key=(s, solver, order) if s != s[::-1] else None, validated=True,
                 sample={"basis_string": s, "solver": solver, "order": order, "to_vec index": nz, "mcwf start index": mc, "<Z_i><0 at t=0": signs[0]} if s != s[::-1] else None)
        ctx.count("solver_" + solver + str(order))
        if nz != mv:
            ctx.mismatch("MPS.to_vec index vs SiteOrder.vec_idx", s, nz, mv)
        if mc != ms:
            ctx.mismatch("MCWF start vector index vs SiteOrder.solver_state_idx", s, mc, ms)
        if signs[0] != mz or signs[1] != mz:
            ctx.mismatch("sign of <Z_i> per solver vs SiteOrder.z_sign", {"string": s, "solver": solver, "order": order}, signs, mz)
            ctx.violation(f"site-order:{solver}", f"{solver} (order {order}) started from basis string {s} reports <Z_i> signs "
                          f"{signs[0]} at t=0; site i of the state has bit {list(s)}", {"oracle": "basis", "s": s, "solver": solver, "order": order})


def evolve_oracle(args):
    from mqt.yaqs.core.data_structures.networks import MPO, MPS
    from mqt.yaqs.core.data_structures.noise_model import NoiseModel

    L, solver, order = args["L"], args["solver"], args["order"]
    kw = args["state"]
    if args["ham"] == "inhomogeneous":
        rng = np.random.default_rng(args.get("hseed", 1))
        terms = []
        for i in range(L):
            terms.append((float(rng.uniform(-1, 1)), f"X{i}"))
            terms.append((float(rng.uniform(-1, 1)), f"Z{i}"))
        for i in range(L - 1):
            terms.append((float(rng.uniform(-1, 1)), f"Z{i} Z{i + 1}"))
        if args.get("hseed", 1) % 2:  # not real symmetric: a Y field and a Dzyaloshinskii-Moriya pair
            terms.append((float(rng.uniform(-1, 1)), f"Y{int(rng.integers(0, L))}"))
            c = float(rng.uniform(-1, 1))
            terms += [(c, "X0 Y1"), (-c, "Y0 X1")]
        H = MPO()
        H.from_pauli_sum(terms=terms, length=L)
        hd = np.zeros((2**L, 2**L), dtype=complex)
        for c, spec in terms:
            pl = {int(tok[1:]): dense.PAULI[tok[0]] for tok in spec.split()}
            hd += c * dense.op_on(L, pl)
    elif args["ham"] == "ising":
        H, hd = MPO.ising(L, args["J"], args["g"]), dense.ising(L, args["J"], args["g"])
    else:
        H, hd = MPO.heisenberg(L, args["J"], 0.5 * args["J"], 0.3, args["g"]), dense.heisenberg(L, args["J"], 0.5 * args["J"], 0.3, args["g"])
    procs = args.get("procs") or []
    nm = NoiseModel([dict(p) for p in procs]) if procs else None
    specs = [(p, i) for i in range(L) for p in "xyz"] + [(pp, [i, i + 1]) for i in range(L - 1) for pp in ("zz", "xx", ("xz", "yx", "zy")[i % 3])]
    T, dt = 0.2, 0.02
    ntraj = 1
    if procs and solver != "Lindblad":
        return None  # stochastic solvers with noise are compared through their outcome trees in C01
    st, hist = None, ""
    if args.get("reuse_after"):
        # history: the SAME initial-state object served an earlier run of another back-end
        st = MPS(L, **kw)
        run_solver(args["reuse_after"], 1, L, kw, H, None, specs[:1], T=0.04, dt=0.02, state_obj=st)
        hist = f", initial-state object reused after a {args['reuse_after']} run"
    if args.get("real_dtype") and st is None:
        # a legal input of another dtype: the same state with real-valued site tensors (as a user builds it from a real decomposition)
        base = MPS(L, **kw)
        if all(np.allclose(np.imag(t), 0.0) for t in base.tensors):
            st = MPS(L, tensors=[np.ascontiguousarray(np.real(t)).astype(np.float64) for t in base.tensors], physical_dimensions=[2] * L)
            hist = ", initial state with real-dtype site tensors"
    res = run_solver(solver, order, L, kw, H, nm, specs, T=T, dt=dt, num_traj=ntraj, state_obj=st)
    v0 = dense.mps_dense(MPS(L, **kw))
    v0 = v0 / np.linalg.norm(v0)
    ops = [dense.op_on(L, {i: dense.PAULI[p]}) if isinstance(i, int) else dense.op_on(L, {i[0]: dense.PAULI[p[0]], i[1]: dense.PAULI[p[1]]})
           for p, i in specs]
    nsteps = int(round(T / dt))
    worst, where = 0.0, None
    ls = [np.sqrt(p["strength"]) * lottery.dense_op(p, L) for p in procs]
    for c in (0, nsteps // 2, nsteps):
        t = c * dt
        if procs:
            rho = dense.lindblad_evolve(hd, ls, np.outer(v0, v0.conj()), t)
            ref = [float(np.real(np.trace(rho @ o))) for o in ops]
        else:
            vt = dense.evolve(hd, v0, t)
            ref = [dense.expect(vt, o) for o in ops]
        d = np.abs(res[:, c] - np.array(ref))
        if d.max() > worst:
            worst, where = float(d.max()), (c, specs[int(np.argmax(d))])
    tol = 2e-4 if solver == "Lindblad" else 5e-3
    if worst > tol:
        return (f"{solver} order {order}: observable {where[1]} at column {where[0]} differs from the dense solution by {worst:.3e} "
                f"(initial state {kw}, {args['ham']}, noise {[(p['name'], p['sites']) for p in procs]}{hist})")
    return None


def liouvillian_correspondence(ctx):
    """The generator the Lindblad back-end integrates (its right-hand side applied to every matrix unit, the ODE solver replaced by a
    recorder) vs the dense master equation -i[H,.] + sum_k gamma_k (L_k . L_k^+ - 1/2 {L_k^+ L_k, .}) with every listed process on ITS
    sites with ITS strength: random lists with switched-off (strength 0) entries at any position, repeated processes, adjacent and
    distant pairs."""
    import mqt.yaqs.analog.lindblad as Lb
    from mqt.yaqs.core.data_structures.networks import MPO, MPS
    from mqt.yaqs.core.data_structures.noise_model import NoiseModel
    from mqt.yaqs.core.data_structures.simulation_parameters import AnalogSimParams, Observable

    rng = ctx.rng
    for k in range(ctx.scale(24, 300)):
        L = int(rng.integers(2, 4))
        names1 = ["lowering", "raising", "pauli_x", "pauli_y", "pauli_z"]
        names2 = ["crosstalk_xy", "crosstalk_zx", "crosstalk_yy", "crosstalk_xz"]
        procs = []
        for _ in range(int(rng.integers(1, 5))):
            if rng.random() < 0.65 or L < 2:
                procs.append({"name": str(rng.choice(names1)), "sites": [int(rng.integers(0, L))], "strength": float(rng.uniform(0.1, 0.9))})
            else:
                a = int(rng.integers(0, L - 1))
                b = a + 1 if (L == 2 or rng.random() < 0.6) else int(rng.integers(a + 1, L))
                procs.append({"name": str(rng.choice(names2)), "sites": [a, b], "strength": float(rng.uniform(0.1, 0.9))})
        zero_at = None
        if k % 2 == 0:  # a switched-off entry somewhere in the list (first, middle or last)
            zero_at = int(rng.integers(0, len(procs) + 1))
            procs.insert(zero_at, {"name": str(rng.choice(names1)), "sites": [int(rng.integers(0, L))], "strength": 0.0})
        J, g = float(rng.uniform(0.4, 1.2)), float(rng.uniform(0.3, 0.9))
        H, hd = MPO.ising(L, J, g), dense.ising(L, J, g)
        if k % 3:  # Hamiltonians that are not real symmetric: fields and couplings with Y factors
            from drivers.C05 import pauli_terms

            terms, hd = pauli_terms(L, rng)
            terms.append((float(rng.uniform(-1, 1)), "Y0"))
            hd = hd + terms[-1][0] * dense.op_on(L, {0: dense.PAULI["Y"]})
            H = MPO()
            H.from_pauli_sum(terms=terms, length=L)
        par = AnalogSimParams([Observable("z", 0)], elapsed_time=0.1, dt=0.1, solver="Lindblad", show_progress=False)
        seen = {}
        saved = Lb.solve_ivp

        class Res:
            success, message = True, "recorder"

        def fake(rhs, t_span, y0, t_eval=None, **kw):
            seen["rhs"], seen["y0"] = rhs, np.asarray(y0)
            r = Res()
            r.t = np.asarray(t_eval, dtype=float)
            r.y = np.stack([np.asarray(y0)] * len(r.t), axis=1)
            return r

        Lb.solve_ivp = fake
        try:
            Lb.lindblad((0, MPS(L, state="zeros"), NoiseModel([dict(p) for p in procs]), par, H))
        except Exception as e:  # noqa: BLE001
            ctx.mismatch("Lindblad generator vs dense master equation", {"L": L, "procs": procs}, repr(e), "-", key="liouvillian")
            continue
        finally:
            Lb.solve_ivp = saved
        d = 2**L
        cols = []
        for j in range(d * d):
            e = np.zeros(d * d, dtype=complex)
            e[j] = 1.0
            cols.append(np.asarray(seen["rhs"](0.0, e)).reshape(-1))
        got = np.stack(cols, axis=1)
        ls = [np.sqrt(p["strength"]) * lottery.dense_op(p, L) for p in procs]
        want = dense.lindblad_rhs(hd, ls)
        ctx.case(nontrivial_key=("liouvillian", k), validated=True,
                 sample={"L": L, "processes": [(p["name"], p["sites"], round(p["strength"], 3)) for p in procs]} if k < 2 else None)
        ctx.count("liouvillian_with_switched_off_entry" if zero_at is not None else "liouvillian")
        if got.shape != want.shape or not np.allclose(got, want, atol=1e-10):
            ctx.mismatch("Lindblad generator (right-hand side on matrix units) vs the dense master equation of the listed processes",
                         {"L": L, "J": J, "g": g, "procs": procs}, float(np.max(np.abs(got - want))) if got.shape == want.shape else list(got.shape), 0.0,
                         key="liouvillian")


def search(ctx):
    states = [dict(state="basis", basis_string="100"), dict(state="Neel"), dict(state="wall"), dict(state="basis", basis_string="0110"),
              dict(state="x+"), dict(state="basis", basis_string="10"), dict(state="y+"), dict(state="y-")]
    plan = []
    for k in range(ctx.scale(14, 200)):
        kw = states[k % len(states)]
        L = len(kw.get("basis_string", "")) or int(ctx.rng.integers(3, 5))
        solver, order = SOLVERS[k % 4]
        procs = []
        if solver == "Lindblad" and (k // 4) % 3 != 2:
            procs = [{"name": str(ctx.rng.choice(["lowering", "pauli_z", "raising"])), "sites": [int(ctx.rng.integers(0, L))], "strength": 0.4}]
            if (k // 4) % 2 == 0 and L >= 3:  # an adjacent two-site process on an off-centre bond
                s0 = int(ctx.rng.choice([0, L - 2]))
                procs.append({"name": str(ctx.rng.choice(["crosstalk_xz", "crosstalk_zy", "crosstalk_xx"])), "sites": [s0, s0 + 1], "strength": 0.5})
        if procs and (k // 4) % 3 == 0:  # a switched-off channel listed first, on another site than the next entry
            procs.insert(0, {"name": "lowering", "sites": [(procs[0]["sites"][0] + 1) % L], "strength": 0.0})
        plan.append(dict(L=L, solver=solver, order=order, state=kw, ham=str(ctx.rng.choice(["ising", "heisenberg", "inhomogeneous", "inhomogeneous"])), hseed=int(ctx.rng.integers(0, 10**6)),
                         J=float(ctx.rng.uniform(0.5, 1.2)), g=float(ctx.rng.uniform(0.3, 0.9)), procs=procs,
                         reuse_after=[None, "Lindblad", None, "MCWF", None, "TJM"][k % 6], real_dtype=bool(k % 6 in (0, 2, 4))))
    # directed: the same basis state with real-dtype tensors through every back-end, with and without noise
    for k, (solver, order) in enumerate(DENSE_WITH_ORDER2):
        for noisy in (False, True):
            if noisy and solver != "Lindblad":
                continue
            plan.append(dict(L=3, solver=solver, order=order, state={"state": "basis", "basis_string": "110"}, ham="heisenberg", hseed=0, J=0.9, g=0.5,
                             procs=[{"name": "lowering", "sites": [0], "strength": 0.4}, {"name": "pauli_z", "sites": [2], "strength": 0.3}] if noisy else [],
                             reuse_after=None))
            ctx.count("dense_solver_with_order_2")
    for k, (solver, order) in enumerate(SOLVERS):
        plan.append(dict(L=3, solver=solver, order=order, state={"state": "basis", "basis_string": "100"}, ham="ising", hseed=0, J=1.0, g=0.7,
                         procs=[{"name": "lowering", "sites": [0], "strength": 0.3}] if solver == "Lindblad" else [], reuse_after=None, real_dtype=True))
    for a in plan:
        try:
            why = evolve_oracle(a)
        except common.HardTimeout:
            ctx.notes.append("evolve oracle timed out")
            continue
        except Exception as e:  # noqa: BLE001
            why = f"simulator.run raised {type(e).__name__}: {e}"
        ctx.case(nontrivial_key=("evolve", str(a["state"]), a["solver"], a["order"], a["ham"]) if a["state"].get("state") != "x+" else None)
        ctx.count("evolve_" + a["solver"] + ("_noisy" if a.get("procs") else ""))
        if why:
            ctx.violation(f"evolve:{a['solver']}", why, {"oracle": "evolve", "args": a})


def replay(ctx, data):
    rp = data.get("replay", data)
    if rp.get("oracle") == "evolve":
        return evolve_oracle(rp["args"])
    if rp.get("oracle") == "basis":
        from mqt.yaqs.core.data_structures.networks import MPO

        L = len(rp["s"])
        H = MPO.hamiltonian(length=L, one_body=[(0.3, "Z")], two_body=[(0.2, "Z", "Z")])
        res = run_solver(rp["solver"], rp["order"], L, dict(state="basis", basis_string=rp["s"]), H, None, [("z", i) for i in range(L)], T=0.1, dt=0.05)
        signs = [bool(v < 0) for v in res[:, 0]]
        return f"signs {signs}" if signs != [c == "1" for c in rp["s"]] else None
    return "re-run the check: " + "; ".join(b["what"] for b in data.get("broken", []))
