"""Symbolic traces of the real analog orchestration code (DESIGN.md §1.2): the numerical kernels called by
analog_tjm are replaced IN THIS PROCESS by recording stubs; the real control flow runs unchanged."""
from __future__ import annotations

import contextlib

import numpy as np


@contextlib.contextmanager
def analog_stubs():
    import mqt.yaqs.analog.analog_tjm as A
    from mqt.yaqs.core.data_structures.networks import MPS

    saved = {n: getattr(A, n) for n in ("local_dynamic_tdvp", "bug", "apply_dissipation", "stochastic_process", "apply_scheduled_jumps")}
    saved_ev = MPS.evaluate_observables
    rows: list = []
    calls = {"stub": 0}

    def tr(state, *xa, **xk):
        if not hasattr(state, "_trace"):
            state._trace = []
        return state._trace

    def u(state, h, p, *xa, **xk):
        calls["stub"] += 1
        tr(state).append("U")

    def d(state, nm, dt, p, *xa, **xk):
        calls["stub"] += 1
        r = dt / p.dt
        tr(state).append("Dh" if r == 0.5 else ("D1" if r == 1.0 else f"D?{r}"))

    def sp(state, nm, dt, p, rng=None, *xa, **xk):
        calls["stub"] += 1
        tr(state).append("J")
        return state

    def sj(state, nm, time, p, *xa, **xk):
        calls["stub"] += 1
        idx = [i for i, t in enumerate(p.times) if t == time]
        tr(state).append(("S", idx[0] if len(idx) == 1 else -1))
        return state

    def ev(self, p, results, column_index=0, *xa, **xk):
        rows.append((int(column_index), list(tr(self))))

    A.local_dynamic_tdvp, A.bug, A.apply_dissipation, A.stochastic_process, A.apply_scheduled_jumps = u, u, d, sp, sj
    MPS.evaluate_observables = ev
    try:
        yield rows, calls
    finally:
        for n, f in saved.items():
            setattr(A, n, f)
        MPS.evaluate_observables = saved_ev


def analog_columns(order, elapsed, dt, jump_times, sampling, noise=True, L=2):
    """Run the real analog_tjm_<order> with stubs; return ([(column, word)], len(times), result shape)."""
    import mqt.yaqs.analog.analog_tjm as A
    from mqt.yaqs.core.data_structures.networks import MPO, MPS
    from mqt.yaqs.core.data_structures.noise_model import NoiseModel
    from mqt.yaqs.core.data_structures.simulation_parameters import AnalogSimParams, Observable

    p = AnalogSimParams([Observable("z", 0)], elapsed_time=elapsed, dt=dt, order=order, sample_timesteps=sampling,
                        show_progress=False)
    nm = None
    if noise:
        nm = NoiseModel([{"name": "pauli_x", "sites": [0], "strength": 0.1}],
                        scheduled_jumps=[{"time": t, "sites": [0], "name": "x"} for t in jump_times])
    with analog_stubs() as (rows, calls):
        fn = A.analog_tjm_1 if order == 1 else A.analog_tjm_2
        res = fn((0, MPS(L), nm, p, MPO.ising(L, 1, 0.5)))
    return rows, len(p.times), tuple(np.shape(res)), calls["stub"]


def word_to_py(w):
    """Coq `list sym` (parsed) -> the harness representation."""
    out = []
    for s in w:
        name = s[0]
        out.append(("S", s[1]) if name == "Sj" else name)
    return out
