"""C19 — the Krylov exponentials are accurate and norm-preserving on every code path.

Tie (discrete): a recording operator counts the matrix-vector products the real expm_krylov asks for; for start vectors inside
an invariant subspace of dimension r (breakdown path) and for runs that can neither break down nor converge (tol = 0) the
count is compared exactly with the subspace dimension Model/Krylov.krylov_exit predicts for that scenario.
Search: expm_krylov / expm_arnoldi vs scipy.linalg.expm for random Hermitian / non-Hermitian operators, Krylov-deficient
starts, invariant subspaces, +-dt, sizes on both sides of the compiled-path switch (4096) and of the dense/matrix-free switch
(128) in update_site / update_bond; norm preservation on every path.
"""
from __future__ import annotations

import numpy as np
import scipy.linalg

import common
from common import g_nat

RULE = ("Hermitian operators of size 4..200 (and 4096/5000 for the compiled kernels) with prescribed spectral width, start vectors "
        "in invariant subspaces of dimension 1..8 or generic, dt in +-[0.01, 1]; non-trivial = breakdown or full-subspace exit, or "
        "a size next to a code-path switch; distinct by (seed, size, scenario)")
TRUSTED = ["scipy.linalg.expm as the reference exponential; recording operator (harness)",
           "modelled, not verified: floating-point Lanczos orthogonality, LAPACK stemr/stebz, the Hochbruck-Lubich accuracy bound"]
ASSUMES = ["'moderate' spectral width times |dt| = at most 12 for the accuracy statement; norm preservation is checked for any width"]
HEADER = "From Coq Require Import List Arith. Import ListNotations.\nFrom Yaqs Require Import Model.Krylov."


def herm(rng, n, width):
    a = rng.normal(size=(n, n)) + 1j * rng.normal(size=(n, n))
    a = (a + a.conj().T) / 2
    w = np.linalg.eigvalsh(a)
    return a * (width / (w[-1] - w[0]))


def count_calls(a, v, dt, m_max, tol):
    from mqt.yaqs.core.methods.matrix_exponential import expm_krylov

    calls = [0]

    def op(x):
        calls[0] += 1
        return a @ x

    out = expm_krylov(op, v.copy(), dt, max_lanczos_iterations=m_max, tol=tol)
    return calls[0], out


def correspond(ctx):
    ctx.rules.append(RULE)
    cases, exprs, impl = [], [], []
    for k in range(ctx.scale(60, 1000)):
        n = int(ctx.rng.integers(12, 60))
        m_max = int(ctx.rng.integers(3, 26))
        scenario = ("breakdown", "full")[k % 2]
        rng = np.random.default_rng(int(ctx.rng.integers(0, 2**31)))
        if scenario == "breakdown":
            r = int(ctx.rng.integers(1, min(9, m_max)))  # invariant subspace of dimension r < m_max: exit at the r-th direction
            q, _ = np.linalg.qr(rng.normal(size=(n, n)) + 1j * rng.normal(size=(n, n)))
            lam = np.concatenate([np.linspace(-1.0, 1.0, r) * 3.0, rng.uniform(-3, 3, size=n - r)])
            a = (q * lam) @ q.conj().T
            a = (a + a.conj().T) / 2
            v = q[:, :r] @ (rng.normal(size=r) + 1j * rng.normal(size=r) + 0.5)
            calls, out = count_calls(a, v, 0.3, m_max, 0.0)  # tol = 0: no convergence exit
            small = f"(fun j => Nat.eqb j {r - 1})"
            conv = "(fun _ => false)"
        else:
            a = herm(rng, n, 40.0)
            v = rng.normal(size=n) + 1j * rng.normal(size=n)
            calls, out = count_calls(a, v, 1.0, m_max, 0.0)
            small, conv, r = "(fun _ => false)", "(fun _ => false)", None
        ref = scipy.linalg.expm(-1j * (0.3 if scenario == "breakdown" else 1.0) * a) @ v
        impl.append((calls, float(np.linalg.norm(out) / np.linalg.norm(v)), float(np.linalg.norm(out - ref) / np.linalg.norm(v))))
        exprs.append(f"exit_dim (krylov_exit {g_nat(m_max)} {small} {conv})")
        cases.append(dict(n=n, m_max=m_max, scenario=scenario, r=r))
    vals = common.coq_eval_sharded(HEADER, exprs, tag="c19")
    for c, (calls, nrm, err), m in zip(cases, impl, vals):
        ctx.case(nontrivial_key=(c["n"], c["m_max"], c["scenario"], c["r"]), validated=True,
                 sample={**c, "operator_calls": calls, "model_dimension": m} if len(ctx.samples) < 4 else None)
        ctx.count("scenario_" + c["scenario"])
        if calls != m:
            ctx.mismatch("number of operator applications vs Krylov.krylov_exit dimension", c, calls, m)
        if abs(nrm - 1) > 1e-9:
            ctx.violation("norm", f"expm_krylov changed the norm by a factor {nrm:.12f} ({c})", {"oracle": "skeleton", **c})
        if c["scenario"] == "breakdown" and err > 1e-8:
            ctx.violation("accuracy", f"expm_krylov on an invariant subspace of dimension {c['r']} is off by {err:.3e}", {"oracle": "skeleton", **c})


def local_exact(seed, L, chi, dt, which, mpo="ising"):
    """update_site / update_bond on the environments of a real random MPS vs expm of the local operator assembled column by column
    from the projector (independent of the evolution helper)."""
    import mqt.yaqs.core.methods.tdvp as T
    from mqt.yaqs.core.data_structures.networks import MPO, MPS
    rng = np.random.default_rng(seed)
    dims = [1] + [min(chi, 2 ** min(i + 1, L - 1 - i)) for i in range(L - 1)] + [1]
    tens = [rng.normal(size=(2, dims[i], dims[i + 1])) + 1j * rng.normal(size=(2, dims[i], dims[i + 1])) for i in range(L)]
    st = MPS(L, tensors=tens, physical_dimensions=[2] * L)
    st.normalize("B")
    dims = [1] + [t.shape[2] for t in st.tensors]
    H = MPO.ising(L, float(rng.uniform(0.4, 1.2)), float(rng.uniform(0.3, 1.0)))
    if mpo == "product":
        # a product operator (the generator of a gate, a single Pauli string): every MPO bond has dimension one
        hs = []
        for _ in range(L):
            m_ = rng.normal(size=(2, 2)) + 1j * rng.normal(size=(2, 2))
            hs.append(((m_ + m_.conj().T) / 2).reshape(2, 2, 1, 1))
        H = MPO()
        H.custom(hs, transpose=False)
    right = T.initialize_right_environments(st, H)
    i = int(rng.integers(0, L - 1))
    wl = H.tensors[0].shape[2]
    left = np.zeros((1, wl, 1), dtype=complex); left[0, 0, 0] = 1  # boundary
    # the boundary block of single_site_tdvp: identity over the MPO's left bond
    left = np.zeros((dims[0], wl, dims[0]), dtype=complex)
    for a in range(dims[0]):
        for w in range(wl):
            left[a, w, a] = 1
    for j in range(i):
        left = T.update_left_environment(st.tensors[j], st.tensors[j], H.tensors[j], left)
    if which == "site":
        x = st.tensors[i]
        proj = lambda t: T.project_site(left, right[i], H.tensors[i], t)
        out = T.update_site(left, right[i], H.tensors[i], x.copy(), dt)
    else:
        left2 = T.update_left_environment(st.tensors[i], st.tensors[i], H.tensors[i], left)
        x = rng.normal(size=(dims[i + 1], dims[i + 1])) + 1j * rng.normal(size=(dims[i + 1], dims[i + 1]))
        proj = lambda t: T.project_bond(left2, right[i], t)
        out = T.update_bond(left2, right[i], x.copy(), dt)
    n = x.size
    hm = np.zeros((n, n), dtype=complex)
    for k in range(n):
        e = np.zeros(n, dtype=complex); e[k] = 1
        hm[:, k] = np.asarray(proj(e.reshape(x.shape))).reshape(-1)
    defect = np.linalg.norm(hm - hm.conj().T) / max(np.linalg.norm(hm), 1e-300)
    ref = scipy.linalg.expm(-1j * dt * hm) @ x.reshape(-1)
    err = np.linalg.norm(np.asarray(out).reshape(-1) - ref) / np.linalg.norm(x)
    w = np.linalg.eigvalsh((hm + hm.conj().T) / 2)
    return err, defect, n, float(w[-1] - w[0])


def accuracy_oracle(args):
    from mqt.yaqs.core.methods.matrix_exponential import expm_arnoldi, expm_krylov

    rng = np.random.default_rng(args["seed"])
    n, dt, kind = args["n"], args["dt"], args["kind"]
    if kind == "hermitian":
        a = herm(rng, n, args["width"])
        v = rng.normal(size=n) + 1j * rng.normal(size=n)
        if args.get("deficient"):
            r = min(args["deficient"], n)
            w, q = np.linalg.eigh(a)
            v = q[:, :r] @ (rng.normal(size=r) + 1j)
        out = expm_krylov(lambda x: a @ x, v.copy(), dt)
        ref = scipy.linalg.expm(-1j * dt * a) @ v
        if abs(np.linalg.norm(out) / np.linalg.norm(v) - 1) > 1e-9:
            return f"expm_krylov does not preserve the norm (ratio {np.linalg.norm(out) / np.linalg.norm(v):.12f}, n={n}, width*dt={args['width'] * abs(dt):.2f})"
        if args["width"] * abs(dt) <= 12 and np.linalg.norm(out - ref) > 1e-8 * np.linalg.norm(v):
            return f"expm_krylov error {np.linalg.norm(out - ref) / np.linalg.norm(v):.3e} at width*|dt| = {args['width'] * abs(dt):.2f} (n={n}, dt={dt})"
        return None
    if kind == "nonhermitian":
        h = herm(rng, n, args["width"])
        g = rng.normal(size=(n, n))
        a = h - 0.5j * 0.1 * (g @ g.T) / n
        v = rng.normal(size=n) + 1j * rng.normal(size=n)
        out = expm_arnoldi(lambda x: a @ x, v.copy(), dt)
        ref = scipy.linalg.expm(-1j * dt * a) @ v
        if args["width"] * abs(dt) <= 8 and np.linalg.norm(out - ref) > 1e-8 * np.linalg.norm(v):
            return f"expm_arnoldi error {np.linalg.norm(out - ref) / np.linalg.norm(v):.3e} (n={n}, dt={dt})"
        outh = expm_arnoldi(lambda x: h @ x, v.copy(), dt)
        if abs(np.linalg.norm(outh) / np.linalg.norm(v) - 1) > 1e-9:
            return "expm_arnoldi does not preserve the norm for a Hermitian operator"
        return None
    if kind == "defective":
        # non-diagonalisable (or nearly so) generators: exceptional points of effective Hamiltonians, nilpotent ladders, Jordan blocks
        sub = args["sub"]
        if sub == "critical":
            nq = args["n"]
            g = float(rng.uniform(0.3, 1.2))
            x = np.array([[0, 1], [1, 0]], dtype=complex)
            nn = np.array([[0, 0], [0, 1]], dtype=complex)
            a = np.zeros((2**nq, 2**nq), dtype=complex)
            for i in range(nq):
                ops_x = [np.eye(2)] * nq
                ops_n = [np.eye(2)] * nq
                ops_x[i], ops_n[i] = x, nn
                kx, kn = np.eye(1), np.eye(1)
                for m1, m2 in zip(ops_x, ops_n):
                    kx, kn = np.kron(kx, m1), np.kron(kn, m2)
                a = a + g * kx - 0.5j * (4 * g) * kn  # gamma = 4 g: critical damping
            v = np.zeros(2**nq, dtype=complex)
            v[0] = 1.0
        elif sub == "ladder":
            dlev = args["n"]
            a = np.diag(np.sqrt(np.arange(1, dlev)), 1).astype(complex)  # lowering operator: nilpotent
            v = np.zeros(dlev, dtype=complex)
            v[-1] = 1.0
        else:
            dlev = args["n"]
            a = (float(rng.uniform(-1, 1)) - 0.3j) * np.eye(dlev, dtype=complex) + np.diag(np.ones(dlev - 1), 1)
            v = rng.normal(size=dlev) + 1j * rng.normal(size=dlev)
        out = expm_arnoldi(lambda x_: a @ x_, v.copy(), dt)
        ref = scipy.linalg.expm(-1j * dt * a) @ v
        if np.linalg.norm(out - ref) > 1e-8 * np.linalg.norm(v):
            return f"expm_arnoldi error {np.linalg.norm(out - ref) / np.linalg.norm(v):.3e} on a non-diagonalisable generator ({sub}, size {a.shape[0]}, dt={dt})"
        return None
    if kind == "nearly_invariant":
        # Krylov spaces that are ALMOST invariant (off-diagonal Lanczos entries between 1e-12 and 1e-6): a block weakly coupled to the
        # rest, a start vector next to an eigenvector, and operators in small units evolved over a correspondingly long time
        sub = args["sub"]
        tol = 1e-8
        if sub == "weak_block":
            d1, d2, eps = args["d1"], args["n"], args["eps"]
            a = np.zeros((d1 + d2, d1 + d2), dtype=complex)
            a[:d1, :d1] = herm(rng, d1, 2.0) if d1 > 1 else 0.3
            a[d1:, d1:] = herm(rng, d2, 3.0)
            c = eps * (rng.normal(size=(d1, d2)) + 1j * rng.normal(size=(d1, d2)))
            a[:d1, d1:], a[d1:, :d1] = c, c.conj().T
            v = np.zeros(d1 + d2, dtype=complex)
            v[:d1] = rng.normal(size=d1) + 1j * rng.normal(size=d1)
        elif sub == "near_eig":
            a = herm(rng, n, 4.0)
            w, q = np.linalg.eigh(a)
            v = q[:, int(rng.integers(0, n))] + args["eps"] * (rng.normal(size=n) + 1j * rng.normal(size=n))
        else:  # small_units: same physics, other units
            a = herm(rng, n, 6.0) * args["eps"]
            v = rng.normal(size=n) + 1j * rng.normal(size=n)
            dt = dt / args["eps"]
            tol = 1e-6  # the stopping estimate of the unchanged code is absolute: ~1e-7 relative at unit scale 1e-7
        out = expm_krylov(lambda x: a @ x, v.copy(), dt)
        ref = scipy.linalg.expm(-1j * dt * a) @ v
        if abs(np.linalg.norm(out) / np.linalg.norm(v) - 1) > 1e-9:
            return f"expm_krylov does not preserve the norm ({sub})"
        if np.linalg.norm(out - ref) > tol * np.linalg.norm(v):
            return (f"expm_krylov error {np.linalg.norm(out - ref) / np.linalg.norm(v):.3e} on a nearly invariant Krylov space "
                    f"({sub}, size {a.shape[0]}, scale {args['eps']:.1e}, dt={dt:.3g})")
        return None
    if kind == "local_exact":
        err, defect, nloc, width = local_exact(args["seed"], args["L"], args["chi"], dt, args["which"], args.get("mpo", "ising"))
        if defect < 1e-9 and width * abs(dt) <= 12 and err > 1e-8:
            return (f"update_{args['which']} on a local space of {nloc} entr{'y' if nloc == 1 else 'ies'} (bond dimension {args['chi']}) differs from exp(-i dt H_loc) "
                    f"by {err:.3e} (relative), dt={dt}")
        return None
    if kind == "nested":
        # evaluations in flight at the same time: an operator that itself evaluates an exponential of the same size (interaction picture
        # U0^+ H1 U0), and an evaluation that is interrupted by an unrelated one of the same size (what two threads do to each other)
        if args["sub"] == "interaction":
            h0, h1 = herm(rng, n, 2.0), herm(rng, n, 3.0)
            t0 = 0.4
            u0 = scipy.linalg.expm(-1j * t0 * h0)
            a = u0.conj().T @ h1 @ u0
            op = lambda x: expm_krylov(lambda y: h0 @ y, h1 @ expm_krylov(lambda y: h0 @ y, x, t0), -t0)  # noqa: E731
            v = rng.normal(size=n) + 1j * rng.normal(size=n)
            out = expm_krylov(op, v.copy(), dt)
            ref = scipy.linalg.expm(-1j * dt * a) @ v
        else:
            d = rng.uniform(-2, 2, size=n)
            u = rng.normal(size=n) + 1j * rng.normal(size=n)
            u /= np.linalg.norm(u)
            d2 = rng.uniform(-3, 3, size=n)
            w = rng.normal(size=n) + 1j * rng.normal(size=n)
            calls = {"k": 0, "other": None}

            def op(x):
                calls["k"] += 1
                if calls["k"] == 3:  # another evaluation of the same size runs to completion in the middle of this one
                    calls["other"] = expm_krylov(lambda y: d2 * y, w.copy(), 0.7 * dt)
                return d * x + 0.5 * u * np.vdot(u, x)

            v = rng.normal(size=n) + 1j * rng.normal(size=n)
            out = expm_krylov(op, v.copy(), dt)
            calls["k"] = 10**9
            ref = expm_krylov(op, v.copy(), dt)  # the same evaluation, undisturbed
            if calls["other"] is not None and np.linalg.norm(calls["other"] - np.exp(-0.7j * dt * d2) * w) > 1e-8 * np.linalg.norm(w):
                return f"nested ({args['sub']}, size {n}): the evaluation that ran in between is inaccurate"
        if abs(np.linalg.norm(out) / np.linalg.norm(v) - 1) > 1e-8:
            return f"nested ({args['sub']}, size {n}): norm ratio {np.linalg.norm(out) / np.linalg.norm(v):.10f} when another evaluation of the same size is in flight"
        if np.linalg.norm(out - ref) > 1e-7 * np.linalg.norm(v):
            return (f"nested ({args['sub']}, size {n}, dt={dt}): result is {np.linalg.norm(out - ref) / np.linalg.norm(v):.3e} away from the reference when another "
                    f"evaluation of the same size is in flight (re-entrant operator / interleaved evaluations)")
        return None
    if kind == "numba":
        big = args["n"]
        d = rng.uniform(-2, 2, size=big)
        u = rng.normal(size=big) + 1j * rng.normal(size=big)
        u /= np.linalg.norm(u)
        # A = D + 0.5 (u u^+): Hermitian, cheap to apply, exact reference through a low-rank update is avoided: compare the two paths
        op = lambda x: d * x + 0.5 * u * np.vdot(u, x)  # noqa: E731
        v = rng.normal(size=big) + 1j * rng.normal(size=big)
        out = expm_krylov(op, v.copy(), dt)
        small_out = expm_krylov(op, v.copy(), dt, max_lanczos_iterations=25)
        if abs(np.linalg.norm(out) / np.linalg.norm(v) - 1) > 1e-9:
            return f"expm_krylov (size {big}) does not preserve the norm"
        dense_a = np.diag(d) + 0.5 * np.outer(u, u.conj()) if big <= 1500 else None
        if dense_a is not None and np.linalg.norm(out - scipy.linalg.expm(-1j * dt * dense_a) @ v) > 1e-8 * np.linalg.norm(v):
            return f"expm_krylov (size {big}) inaccurate"
        if np.linalg.norm(out - small_out) > 1e-10 * np.linalg.norm(v):
            return "two calls with the same arguments disagree"
        # the same problem on the other code path (the compiled kernel is used from NUMBA_THRESHOLD entries on)
        import mqt.yaqs.core.methods.matrix_exponential as ME

        saved_thr = ME.NUMBA_THRESHOLD
        try:
            ME.NUMBA_THRESHOLD = 10**9 if big >= saved_thr else 1
            other = expm_krylov(op, v.copy(), dt)
        finally:
            ME.NUMBA_THRESHOLD = saved_thr
        if np.linalg.norm(out - other) > 1e-9 * np.linalg.norm(v):
            return (f"compiled and pure-Python paths of expm_krylov disagree by {np.linalg.norm(out - other) / np.linalg.norm(v):.3e} on a vector of {big} entries "
                    f"(dt={dt})")
        return None
    if kind == "update_site":
        import mqt.yaqs.core.methods.tdvp as T

        chi, dmpo, phys = args["chi"], 3, 2
        left = rng.normal(size=(chi, dmpo, chi)) + 1j * rng.normal(size=(chi, dmpo, chi))
        right = rng.normal(size=(chi, dmpo, chi)) + 1j * rng.normal(size=(chi, dmpo, chi))
        w = rng.normal(size=(phys, phys, dmpo, dmpo)) + 0j
        ten = rng.normal(size=(phys, chi, chi)) + 1j * rng.normal(size=(phys, chi, chi))
        saved = T.DENSE_THRESHOLD
        outs = []
        try:
            for thr in (10**9, 0):  # force the dense construction, then the matrix-free one
                outs.append(T._evolve_local_tensor_krylov(T.project_site, ten.copy(), 0.01, (left, right, w), dense_threshold=thr))  # noqa: SLF001
        finally:
            T.DENSE_THRESHOLD = saved
        if np.linalg.norm(outs[0] - outs[1]) > 1e-9 * np.linalg.norm(ten):
            return f"dense and matrix-free local effective Hamiltonians give different results (size {ten.size}, diff {np.linalg.norm(outs[0] - outs[1]):.3e})"
        return None
    return None


def search(ctx):
    plan = []
    for k in range(ctx.scale(40, 800)):
        kind = ["hermitian", "hermitian", "nonhermitian", "update_site"][k % 4]
        plan.append(dict(kind=kind, seed=int(ctx.rng.integers(0, 2**31)), n=int(ctx.rng.choice([4, 16, 63, 64, 127, 128, 129, 200])),
                         dt=float(ctx.rng.choice([-1, 1]) * 10 ** ctx.rng.uniform(-2, 0)), width=float(ctx.rng.choice([0.5, 3, 10, 40])),
                         deficient=int(ctx.rng.choice([0, 0, 1, 2, 5])), chi=int(ctx.rng.choice([2, 5, 8, 9]))))
    for k in range(ctx.scale(9, 90)):
        sub = ["critical", "ladder", "jordan"][k % 3]
        plan.append(dict(kind="defective", sub=sub, seed=int(ctx.rng.integers(0, 2**31)), n=int(ctx.rng.integers(2, 5)) if sub == "critical" else int(ctx.rng.integers(3, 8)),
                         dt=float(ctx.rng.choice([0.1, 0.3, -0.2]))))
    for k in range(ctx.scale(12, 150)):
        sub = ["weak_block", "near_eig", "small_units"][k % 3]
        plan.append(dict(kind="nearly_invariant", sub=sub, seed=int(ctx.rng.integers(0, 2**31)), n=int(ctx.rng.integers(12, 45)),
                         d1=int(ctx.rng.integers(1, 5)), eps=float(10 ** ctx.rng.uniform(-8, -6.7)) if sub != "small_units" else float(10 ** ctx.rng.uniform(-7, -3)),
                         dt=float(ctx.rng.choice([-1.2, 1.0, 1.5]))))
    for k in range(ctx.scale(18, 200)):
        # local TDVP updates on the environments of real states, down to product states (one-entry bond tensors)
        plan.append(dict(kind="local_exact", seed=int(ctx.rng.integers(0, 2**31)), n=0, L=int(ctx.rng.integers(2, 6)), chi=[1, 1, 2, 3, 4, 6][k % 6],
                         which=["bond", "site"][k % 2], dt=float(ctx.rng.choice([-0.7, 0.05, 0.3, 0.7])), mpo=["ising", "product", "ising"][(k // 2) % 3]))
    plan += [dict(kind="numba", seed=1, n=4095, dt=0.1), dict(kind="numba", seed=2, n=4096, dt=0.1), dict(kind="numba", seed=3, n=1200, dt=-0.2),
             dict(kind="numba", seed=5, n=4097, dt=0.5), dict(kind="numba", seed=6, n=4225, dt=-0.7)]  # odd lengths on the compiled path (65x65 bonds, qutrit sites)
    plan += [dict(kind="nested", sub="interaction", seed=11, n=24, dt=0.3), dict(kind="nested", sub="interaction", seed=12, n=96, dt=-0.5),
             dict(kind="nested", sub="interleaved", seed=13, n=96, dt=0.4), dict(kind="nested", sub="interleaved", seed=14, n=4096, dt=0.3)]
    if not ctx.quick:
        plan += [dict(kind="numba", seed=4, n=5000, dt=0.05)]
        plan += [dict(kind="nested", sub=["interaction", "interleaved"][k % 2], seed=int(ctx.rng.integers(0, 2**31)), n=int(ctx.rng.choice([16, 40, 130])), dt=float(ctx.rng.choice([-0.6, 0.2, 0.9])))
                 for k in range(12)]
    for a in plan:
        try:
            with common.time_limit(300):
                why = accuracy_oracle(a)
        except common.HardTimeout:
            ctx.notes.append("accuracy oracle timed out")
            continue
        except Exception as e:  # noqa: BLE001
            why = f"{a['kind']} raised {type(e).__name__}: {e}"
        ctx.case(nontrivial_key=("acc", a["kind"], a["seed"]) if a.get("deficient") or a["kind"] != "hermitian" or a["n"] in (127, 128, 129) else None)
        ctx.count("acc_" + a["kind"])
        if why:
            ctx.violation("accuracy:" + a["kind"], why, {"oracle": "accuracy", "args": a})


def replay(ctx, data):
    rp = data.get("replay", data)
    if rp.get("oracle") == "accuracy":
        return accuracy_oracle(rp["args"])
    return "re-run the check: " + "; ".join(b["what"] for b in data.get("broken", []))
