#!/venv/bin/python
"""Entry point of every check:  vcheck.py <Cxx> --tier quick|thorough   |   vcheck.py <Cxx> --replay <file>

Pipeline (DESIGN.md §1.5):
  1. rebuild coq/Props/<id>.vo and its dependencies (the proof obligations; models regenerated from /repo where
     a translator exists)                                                              -> obligations / discharged
  2. correspondence: run the executable Gallina model and the implementation in /repo on the same cases
  3. violation search: the property stated directly against the implementation (dense oracles), always run at a
     modest size and enlarged when 1 or 2 failed
  4. KNOWN-FINDING / VIOLATION lines, evidence/<id>.json, exit code
"""
from __future__ import annotations

import argparse
import importlib
import json
import os
import sys
import time
import traceback
from pathlib import Path

HERE = Path(__file__).resolve().parent
if os.environ.get("PYTHONHASHSEED") != "0" or os.environ.get("YAQS_VERIF_ENV") != "1":
    env = dict(os.environ)
    env["PYTHONHASHSEED"] = "0"
    env["YAQS_VERIF_ENV"] = "1"
    env["PYTHONPATH"] = "/repo/src" + (":" + env["PYTHONPATH"] if env.get("PYTHONPATH") else "")
    for k in ("OMP_NUM_THREADS", "OPENBLAS_NUM_THREADS", "MKL_NUM_THREADS", "NUMEXPR_NUM_THREADS"):
        env.setdefault(k, "1")
    os.execve("/venv/bin/python", ["/venv/bin/python", *sys.argv], env)

sys.path.insert(0, str(HERE))
import numpy as np  # noqa: E402

import common  # noqa: E402
from common import EVID, REPLAYS, VERIF, jsonable  # noqa: E402


class Ctx:
    def __init__(self, pid: str, tier: str, seed: int):
        self.pid, self.tier, self.seed = pid, tier, seed
        self.rng = np.random.Generator(np.random.PCG64(seed))
        self.quick = tier == "quick"
        self.evaluations = 0
        self.nontrivial: set[str] = set()
        self.samples: list = []
        self.traces_validated = 0
        self.mismatches: list[dict] = []
        self.violations: list[dict] = []
        self.hist: dict[str, int] = {}
        self.notes: list[str] = []
        self.rules: list[str] = []
        self.exhaustive = False
        self.props: dict = {}
        self.enlarge = False  # set when an obligation or a correspondence broke: search harder

    # -- bookkeeping ------------------------------------------------------------------
    def count(self, bucket: str, n: int = 1):
        self.hist[bucket] = self.hist.get(bucket, 0) + n

    def case(self, nontrivial_key=None, sample=None, validated: bool = False):
        """Register one explored case. nontrivial_key: a hashable identity if the case is non-trivial by the
        driver's stated rule (distinct keys are counted), else None."""
        self.evaluations += 1
        if nontrivial_key is not None:
            self.nontrivial.add(str(nontrivial_key))
        if validated:
            self.traces_validated += 1
        if sample is not None and len(self.samples) < 6:
            self.samples.append(jsonable(sample))

    def mismatch(self, corr: str, case, impl, model, key: str | None = None):
        self.mismatches.append({"correspondence": corr, "case": jsonable(case), "implementation": jsonable(impl),
                                "model": jsonable(model), "key": key or corr})

    def violation(self, key: str, what: str, replay: dict):
        """A concrete failing input of the PROPERTY on the implementation."""
        self.violations.append({"key": key, "what": what, "replay": jsonable(replay)})

    def scale(self, quick: int, thorough: int) -> int:
        n = quick if self.quick else thorough
        return n * 3 if (self.enlarge and self.quick) else n


def write_replay(pid: str, n: int, body: dict) -> Path:
    REPLAYS.mkdir(exist_ok=True)
    p = REPLAYS / f"{pid}_{n}.json"
    p.write_text(json.dumps(jsonable(body), indent=1))
    return p


def main() -> int:
    ap = argparse.ArgumentParser()
    ap.add_argument("pid")
    ap.add_argument("--tier", default=os.environ.get("VERIF_TIER", "quick"), choices=["quick", "thorough"])
    ap.add_argument("--replay", default=None)
    ap.add_argument("--no-build", action="store_true", help="debug only: skip the Coq build")
    args = ap.parse_args()
    pid = args.pid
    seed = int(os.environ.get("VERIF_SEED", "20260930") or 0)
    t0 = time.time()
    drv = importlib.import_module(f"drivers.{pid}")

    if args.replay:
        data = json.loads(Path(args.replay).read_text())
        ctx = Ctx(pid, "quick", seed)
        res = drv.replay(ctx, data)
        print(("STILL-FAILING: " if res else "PASSES-NOW: ") + str(res or data.get("what", "")))
        return 1 if res else 0

    ctx = Ctx(pid, args.tier, seed)
    lines: list[str] = []
    for old_replay in REPLAYS.glob(f"{pid}_*.json"):
        old_replay.unlink()
    # 1. proof obligations
    if args.no_build:
        ctx.props = {"obligations": 1, "discharged": 1, "assumptions": {}, "failed": None, "theorems": [], "checker_cmd": "skipped"}
    else:
        if hasattr(drv, "regenerate"):
            try:
                drv.regenerate(ctx)
            except Exception as e:  # translator fails closed
                ctx.mismatch("translator", "regenerate coq/Gen from /repo", repr(e), "fail-closed", key="translator")
        ctx.props = common.props_check(pid)
    if ctx.props.get("failed"):
        ctx.enlarge = True
    # 2. correspondence, 3. search
    crashed = None
    try:
        drv.correspond(ctx)
    except common.CoqEvalError as e:
        crashed = "model evaluation failed: " + str(e)[-600:]
    except Exception:
        crashed = "driver crashed in the correspondence: " + traceback.format_exc()[-1500:]
    if ctx.mismatches or crashed:
        ctx.enlarge = True
    try:  # the search for a failing input runs even when the correspondence could not be completed
        drv.search(ctx)
    except common.CoqEvalError as e:
        crashed = (crashed or "") + " model evaluation failed: " + str(e)[-600:]
    except Exception:
        crashed = (crashed + "\n" if crashed else "") + "driver crashed in the search: " + traceback.format_exc()[-1500:]
    if crashed:
        ctx.mismatch("harness", "driver execution", crashed, "-", key="harness")
        ctx.mismatches.insert(0, ctx.mismatches.pop())

    # 4. verdict
    findings = common.load_findings()
    open_keys = {(f["property"], f["key"]): f for f in findings if f["status"] == "open"}
    nrep = 0
    n_viol = 0
    reported_known = set()
    per_key: dict[str, int] = {}
    for v in ctx.violations:
        per_key[v["key"]] = per_key.get(v["key"], 0) + 1
        if per_key[v["key"]] > 2:
            continue
        f = open_keys.get((pid, v["key"]))
        if f:
            if v["key"] not in reported_known:
                lines.append(f"KNOWN-FINDING: property={pid} {f['what']}")
                reported_known.add(v["key"])
            continue
        nrep += 1
        n_viol += 1
        p = write_replay(pid, nrep, {"property": pid, "kind": "failing-input", **v})
        lines.append(f"VIOLATION property={pid} replay={p}")
        if n_viol >= 8:
            break
    unexplained = []
    if ctx.props.get("failed"):
        unexplained.append({"kind": "proof-obligation", "what": ctx.props["failed"], "log": ctx.props.get("log", "")[-2000:]})
    for m in ctx.mismatches:
        f = open_keys.get((pid, m.get("key")))
        if f:  # a listed finding may also name the correspondence it breaks (open: property=<id> key=<correspondence key> ...)
            if m.get("key") not in reported_known:
                lines.append(f"KNOWN-FINDING: property={pid} {f['what']}")
                reported_known.add(m.get("key"))
            continue
        unexplained.append({"kind": "correspondence", "what": f"correspondence `{m['correspondence']}` no longer checks", **m})
    if unexplained and n_viol == 0:
        # the property is no longer shown to hold; no concrete failing input was found by the search
        nrep += 1
        n_viol += 1
        p = write_replay(pid, nrep, {"property": pid, "kind": "no-failing-input-found", "broken": unexplained[:10]})
        lines.append(f"VIOLATION property={pid} replay={p} no-failing-input-found")
    elif unexplained:
        write_replay(pid, 90, {"property": pid, "kind": "broken-obligations-alongside-violation", "broken": unexplained[:10]})

    # 5. evidence
    pr = ctx.props
    assumptions = sorted({a for v in pr.get("assumptions", {}).values() for a in v})
    trusted = ["Coq 8.16.1 kernel + vm_compute (no native_compute)",
               "axioms reported by Print Assumptions over all theorems of this property: " +
               (", ".join(assumptions) if assumptions else "none (closed under the global context)"),
               *getattr(drv, "TRUSTED", [])]
    cov = {
        "obligations": pr.get("obligations", 0), "discharged": pr.get("discharged", 0),
        "checker_cmd": pr.get("checker_cmd", ""), "trusted_base": trusted,
        "theorems": pr.get("theorems", []), "assumptions_per_theorem": pr.get("assumptions", {}),
        "evaluations": ctx.evaluations, "distinct_nontrivial": len(ctx.nontrivial),
        "rule": " | ".join(ctx.rules) or getattr(drv, "RULE", ""),
        "samples": ctx.samples or ["(no case was generated)"],
        "traces_validated_against_impl": ctx.traces_validated,
        "input_distribution": ctx.hist, "exhaustive": ctx.exhaustive,
        "correspondence_mismatches": len(ctx.mismatches), "notes": ctx.notes,
    }
    ev = {"property_id": pid, "tier": args.tier, "seed": seed, "level": "proof", "coverage": cov,
          "assumptions": getattr(drv, "ASSUMES", []), "wall_s": round(time.time() - t0, 2), "violations": n_viol}
    EVID.mkdir(exist_ok=True)
    (EVID / f"{pid}.json").write_text(json.dumps(jsonable(ev), indent=1))
    for ln in lines:
        print(ln)
    print(f"[{pid}] tier={args.tier} obligations={cov['discharged']}/{cov['obligations']} cases={ctx.evaluations} "
          f"nontrivial={len(ctx.nontrivial)} mismatches={len(ctx.mismatches)} violations={n_viol} wall={ev['wall_s']}s")
    return 1 if n_viol else 0


if __name__ == "__main__":
    sys.exit(main())
