#!/bin/sh
# Independent re-check of every compiled property file (and everything it loads) with coqchk; prints the context summary
# (axioms of the loaded libraries, type-in-type, unsafe fixpoints, assumed positivity).  Takes 1-3 minutes.  Not part of the checks.
cd /verif/coq || exit 2
coqchk -silent -o -Q . Yaqs $(for i in 01 02 03 04 05 06 07 08 09 10 11 12 13 14 15 16 17 18 19 20; do echo Yaqs.Props.C$i; done) 2>&1 \
  | grep -v "PrimInt63\.\|PrimFloat\.\|Uint63\..*_spec\|Uint63\.eqb_\(correct\|refl\)"
