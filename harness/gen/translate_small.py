"""Translator for three one-line decision rules, read from /repo's CURRENT source with Python's ast and emitted (one generated file per rule) as binary64
(PrimFloat) Gallina definitions in coq/Gen/SmallGen.v:
    MPO.check_if_identity            the verdict expression of the equivalence checker          (C04)
    AnalogSimParams.__init__         self.times = ...                                          (C15)
    has_scheduled_jump / apply_scheduled_jumps   the time-matching test of scheduled jumps     (C14)
    create_local_noise_model         which processes follow a gate on (first_site, last_site)  (C03; nat/list model, not floats)
Proofs/SmallGenP.v proves each generated definition equal to the hand-written model (Verdict.v, Grid.v), so the theorems of
those properties are re-checked against what the source says now: a changed constant, comparison or default (>= vs >, 1e-9,
rtol, a float stop in arange, int() instead of round()) breaks the equality.  Anything outside the subset fails closed.
"""
from __future__ import annotations

import ast
import pathlib

REPO = pathlib.Path("/repo/src/mqt/yaqs")


class Unsupported(Exception):
    pass


def flit(x: float) -> str:
    if x == 0.0:
        return "0%float"
    h = float(x).hex()  # e.g. 0x1.0624dd2f1a9fcp-10
    return f"({h})%float" if x > 0 else f"(- ({(-x).hex()}))%float"


class Tr:
    """expressions over: float variables, nat variable n, Z results of round(); result types 'f', 'z', 'b', 'lf' (list float)"""

    def __init__(self, fvars, special=None):
        self.fvars = fvars
        self.special = special or {}

    def e(self, n):
        key = ast.unparse(n)
        if key in self.special:
            return self.special[key]
        if isinstance(n, ast.Constant):
            if isinstance(n.value, bool):
                raise Unsupported("bool literal")
            if isinstance(n.value, int):
                return str(n.value), "i"
            if isinstance(n.value, float):
                return flit(n.value), "f"
            raise Unsupported(f"constant {n.value!r}")
        if isinstance(n, ast.Name):
            if n.id in self.fvars:
                return n.id, "f"
            raise Unsupported(f"name {n.id}")
        if isinstance(n, ast.BinOp):
            if isinstance(n.op, ast.Pow):
                if isinstance(n.left, ast.Constant) and n.left.value == 2:
                    t, y = self.e(n.right)
                    if y == "n":
                        return f"(pow2 FN {t})", "f"
                raise Unsupported("power")
            (a, ya), (b, yb) = self.e(n.left), self.e(n.right)
            op = {ast.Add: "+", ast.Sub: "-", ast.Mult: "*", ast.Div: "/"}.get(type(n.op))
            if op is None:
                raise Unsupported("operator")
            if ya == "f" and yb == "f":
                return f"({a} {op} {b})%float", "f"
            if ya == "z" and yb == "i" and op in "+-":
                return f"({a} {op} {b})%Z", "z"
            if ya == "f" and yb == "lz" and op == "*":
                return f"(map (fun j => ({a} * of_Z (Z.of_nat j))%float) (seq 0 (Z.to_nat {b})))", "lf"
            raise Unsupported(f"operands {ya} {op} {yb}")
        if isinstance(n, ast.Compare) and len(n.ops) == 1:
            (a, ya), (b, yb) = self.e(n.left), self.e(n.comparators[0])
            if ya == yb == "f":
                m = {ast.GtE: f"({b} <=? {a})%float", ast.Gt: f"({b} <? {a})%float", ast.LtE: f"({a} <=? {b})%float",
                     ast.Lt: f"({a} <? {b})%float"}
                if type(n.ops[0]) in m:
                    return m[type(n.ops[0])], "b"
            raise Unsupported("comparison")
        if isinstance(n, ast.Call):
            f = n.func
            name = f.id if isinstance(f, ast.Name) else (f"{f.value.id}.{f.attr}" if isinstance(f, ast.Attribute) and isinstance(f.value, ast.Name) else None)
            kw = {k.arg: k.value for k in n.keywords}
            if name == "bool" and len(n.args) == 1 and not kw:
                t, y = self.e(n.args[0])
                if y == "b":
                    return t, "b"
            if name == "round" and len(n.args) == 1 and not kw:
                t, y = self.e(n.args[0])
                if y == "f":
                    return f"(roundZ {t})", "z"
            if name == "np.arange" and len(n.args) == 1 and not kw:
                t, y = self.e(n.args[0])
                if y == "z":
                    return t, "lz"  # 0, 1, ..., z-1 (interpreted by the multiplication)
                raise Unsupported("np.arange with a non-integer stop")
            if name == "np.abs" and len(n.args) == 1 and not kw:
                t, y = self.e(n.args[0])
                if y == "f":
                    return f"(nabs FN {t})", "f"
            if name == "np.isclose" and len(n.args) == 2 and set(kw) <= {"rtol", "atol"}:
                (a, ya), (b, yb) = self.e(n.args[0]), self.e(n.args[1])
                rt = self.e(kw["rtol"]) if "rtol" in kw else (flit(1e-5), "f")
                at = self.e(kw["atol"]) if "atol" in kw else (flit(1e-8), "f")
                if ya == yb == rt[1] == at[1] == "f":
                    return f"(isclose FN {a} {b} {at[0]} {rt[0]})", "b"
            raise Unsupported(f"call {name}")
        raise Unsupported(f"expression {type(n).__name__}: {key}")


def func(tree, name, cls=None):
    for n in ast.walk(tree):
        if cls and isinstance(n, ast.ClassDef) and n.name == cls:
            for m in n.body:
                if isinstance(m, ast.FunctionDef) and m.name == name:
                    return m
        if not cls and isinstance(n, ast.FunctionDef) and n.name == name:
            return n
    raise Unsupported(f"{cls or ''}.{name} not found")


HEAD = ("(* GENERATED on every run by harness/gen/translate_small.py from /repo's current source.  Do not edit. *)\n"
        "From Coq Require Import ZArith List Bool PrimFloat.\nImport ListNotations.\n"
        "From Yaqs Require Import Base.Num Model.Verdict Model.Grid Model.NoiseAttrib.\n\n")
GEN = pathlib.Path("/verif/coq/Gen")


def part_verdict():
    out = []
    # ---- C04 verdict ----
    t = ast.parse((REPO / "core/data_structures/networks.py").read_text())
    fn = func(t, "check_if_identity", "MPO")
    rets = [s for s in fn.body if isinstance(s, ast.Return)]
    if len(rets) != 1 or rets[0] is not fn.body[-1]:
        raise Unsupported("check_if_identity: expected a single final return")
    tr = Tr({"fidelity"}, {"np.abs(trace)": ("abs_trace", "f"), "self.length": ("n", "n")})
    txt, ty = tr.e(rets[0].value)
    if ty != "b":
        raise Unsupported("verdict is not boolean")
    out.append(f"(* networks.py MPO.check_if_identity:  return {ast.unparse(rets[0].value)} *)\n"
               f"Definition verdict_src (abs_trace : float) (n : nat) (fidelity : float) : bool :=\n  {txt}.\n")
    return out


def part_times():
    out = []
    # ---- C15 grid ----
    t = ast.parse((REPO / "core/data_structures/simulation_parameters.py").read_text())
    fn = func(t, "__init__", "AnalogSimParams")
    asg = [s for s in ast.walk(fn) if isinstance(s, ast.Assign) and ast.unparse(s.targets[0]) == "self.times"]
    if len(asg) != 1:
        raise Unsupported("AnalogSimParams.__init__: expected exactly one assignment to self.times")
    txt, ty = Tr({"elapsed_time", "dt"}).e(asg[0].value)
    if ty != "lf":
        raise Unsupported("times is not a list of floats")
    out.append(f"(* simulation_parameters.py AnalogSimParams.__init__:  self.times = {ast.unparse(asg[0].value)} *)\n"
               f"Definition times_src (elapsed_time dt : float) : list float :=\n  {txt}.\n")
    return out


def part_jump():
    out = []
    # ---- C14 time matching ----
    t = ast.parse((REPO / "core/methods/scheduled_jumps.py").read_text())
    fn = func(t, "has_scheduled_jump")
    last = fn.body[-1]
    if not (isinstance(last, ast.Return) and isinstance(last.value, ast.Call) and ast.unparse(last.value.func) == "any"
            and isinstance(last.value.args[0], ast.GeneratorExp) and not last.value.args[0].generators[0].ifs
            and ast.unparse(last.value.args[0].generators[0].iter) == "noise_model.scheduled_jumps"):
        raise Unsupported("has_scheduled_jump: expected `return any(<test> for jump in noise_model.scheduled_jumps)`")
    sp = {"jump['time']": ("jump_time", "f")}
    txt, ty = Tr({"time", "dt"}, sp).e(last.value.args[0].elt)
    if ty != "b":
        raise Unsupported("jump test is not boolean")
    out.append(f"(* scheduled_jumps.py has_scheduled_jump:  any({ast.unparse(last.value.args[0].elt)} for jump in ...) *)\n"
               f"Definition jump_announced_src (jump_time time dt : float) : bool :=\n  {txt}.\n")
    fn = func(t, "apply_scheduled_jumps")
    loops = [s for s in fn.body if isinstance(s, ast.For) and ast.unparse(s.iter) == "noise_model.scheduled_jumps"]
    if len(loops) != 1 or len(loops[0].body) != 1 or not isinstance(loops[0].body[0], ast.If) or loops[0].body[0].orelse:
        raise Unsupported("apply_scheduled_jumps: expected one loop over the scheduled jumps guarded by one test")
    txt, ty = Tr({"time"}, {**sp, "sim_params.dt": ("dt", "f")}).e(loops[0].body[0].test)
    if ty != "b":
        raise Unsupported("jump test is not boolean")
    out.append(f"(* scheduled_jumps.py apply_scheduled_jumps:  if {ast.unparse(loops[0].body[0].test)}: apply *)\n"
               f"Definition jump_applied_src (jump_time time dt : float) : bool :=\n  {txt}.\n")
    return out


def part_local():
    out = []
    # ---- C03 local noise model of a gate ----
    t = ast.parse((REPO / "digital/digital_tjm.py").read_text())
    fn = func(t, "create_local_noise_model")
    body = [st for st in fn.body if not (isinstance(st, ast.Expr) and isinstance(st.value, ast.Constant))]
    names = {}
    comp = None
    for st in body[:-1]:
        if not (isinstance(st, ast.Assign) and len(st.targets) == 1 and isinstance(st.targets[0], ast.Name)):
            raise Unsupported("create_local_noise_model: expected simple assignments")
        if isinstance(st.value, ast.ListComp):
            comp = (st.targets[0].id, st.value)
        else:
            names[st.targets[0].id] = st.value
    ret = body[-1]
    if comp is None or not (isinstance(ret, ast.Return) and ast.unparse(ret.value) == f"NoiseModel({comp[0]})"):
        raise Unsupported("create_local_noise_model: expected `return NoiseModel(<the list comprehension>)`")
    lc = comp[1]
    g = lc.generators[0]
    if (len(lc.generators) != 1 or ast.unparse(g.iter) != "noise_model.processes" or not isinstance(g.target, ast.Name) or g.is_async
            or ast.unparse(lc.elt) != g.target.id or len(g.ifs) != 1):
        raise Unsupported("create_local_noise_model: expected [p for p in noise_model.processes if <test>]")
    pv = g.target.id

    def site_list(n):
        if isinstance(n, ast.Name) and n.id in names:
            n = names[n.id]
        if not isinstance(n, ast.List):
            raise Unsupported(f"site list {ast.unparse(n)}")
        out_ = []
        for e_ in n.elts:
            if isinstance(e_, ast.Name) and e_.id in ("first_site", "last_site"):
                out_.append("a" if e_.id == "first_site" else "b")
            else:
                raise Unsupported(f"site {ast.unparse(e_)}")
        return "[" + "; ".join(out_) + "]"

    def sel(n):
        if isinstance(n, ast.BoolOp):
            parts = [sel(v) for v in n.values]
            op = "orb" if isinstance(n.op, ast.Or) else "andb"
            acc = parts[0]
            for q in parts[1:]:
                acc = f"({op} {acc} {q})"
            return acc
        if isinstance(n, ast.Compare) and len(n.ops) == 1 and isinstance(n.ops[0], ast.Eq) and ast.unparse(n.left) == f"{pv}['sites']":
            return f"(list_eqb sites {site_list(n.comparators[0])})"
        raise Unsupported(f"selection test {ast.unparse(n)}")

    out.append(f"(* digital_tjm.py create_local_noise_model:  [p for p in noise_model.processes if {ast.unparse(g.ifs[0])}] *)\n"
               f"Definition local_selected_src (a b : nat) (sites : list nat) : bool :=\n  {sel(g.ifs[0])}.\n")
    return out


PARTS = {"verdict": ("VerdictGen.v", part_verdict), "times": ("TimesGen.v", part_times), "jump": ("JumpTimeGen.v", part_jump),
         "local": ("LocalGen.v", part_local)}


def regenerate(parts=None):
    """one generated file per rule (and per property), so that a rule the translator cannot read any more breaks the obligations of
    the property it belongs to and of no other"""
    failed, texts = [], []
    for name in parts or PARTS:
        fname, fn = PARTS[name]
        try:
            new = HEAD + "\n".join(fn())
        except Unsupported as e:
            failed.append(f"{name}: {e}")
            continue
        target = GEN / fname
        if not target.exists() or target.read_text() != new:
            target.write_text(new)
        texts.append(new)
    if failed:
        raise Unsupported("; ".join(failed))
    return "\n".join(texts)


if __name__ == "__main__":
    print(regenerate())
