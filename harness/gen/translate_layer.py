"""Translator for process_layer (digital/digital_tjm.py), read from /repo's CURRENT source with Python's ast and emitted as
coq/Gen/LayerGen.v:
    classify_src   what the loop over the front layer does with one node (drop it, keep it as a sampling barrier, file it as a
                   one-qubit gate / even or odd two-qubit gate, raise), as a decision tree over the node's operation name, barrier
                   label, number of qubits and qubit indices
    *_key_src      the sort keys of the three gate groups
Proofs/LayerRuleP.v proves the generated definitions equal to the classification built into the hand-written loop model
(DigitalLoop.iter), so the C16/C02 theorems about the loop are re-checked against what the source says now.  Every path through
the loop body must perform exactly one action; anything outside the subset fails closed.
"""
from __future__ import annotations

import ast
import pathlib

REPO = pathlib.Path("/repo/src/mqt/yaqs")
OUT = pathlib.Path("/verif/coq/Gen/LayerGen.v")

LISTS = {"single_qubit_nodes": "CSingle", "even_nodes": "CEven", "odd_nodes": "COdd", "measure_barriers": "CSample"}


class Unsupported(Exception):
    pass


def slit(s: str) -> str:
    if '"' in s or "\\" in s or not s.isascii():
        raise Unsupported(f"string literal {s!r}")
    return f'"{s}"'


class Expr:
    """expressions over one front-layer node `node`; types: 's' string, 'os' optional string, 'n' nat, 'b' bool"""

    def __init__(self, node_var: str, env: dict[str, ast.AST]):
        self.v, self.env = node_var, env

    def e(self, n):
        if isinstance(n, ast.Name) and n.id in self.env:
            return self.e(self.env[n.id])
        src = ast.unparse(n)
        if src == f"{self.v}.op.name":
            return "(d_name d)", "s"
        if src in (f"getattr({self.v}.op, 'label', None)", f"getattr({self.v}.op, 'label', '')"):
            return "(d_label d)", "os"  # every Qiskit Instruction has a label attribute (None when not given): the default is never used
        if src == f"len({self.v}.qargs)":
            return "(d_nq d)", "n"
        if src == f"{self.v}.qargs[0]._index":
            return "(d_q0 d)", "n"
        if src == f"{self.v}.qargs[1]._index":
            return "(d_q1 d)", "n"
        if isinstance(n, ast.Constant):
            if isinstance(n.value, bool) or n.value is None:
                raise Unsupported(f"constant {src}")
            if isinstance(n.value, int) and 0 <= n.value < 1000:
                return str(n.value), "n"
            if isinstance(n.value, str):
                return slit(n.value), "s"
            raise Unsupported(f"constant {src}")
        if isinstance(n, ast.BoolOp):
            parts = [self.e(v) for v in n.values]
            if any(t != "b" for _, t in parts):
                raise Unsupported(f"boolean operator on non-booleans: {src}")
            op = "andb" if isinstance(n.op, ast.And) else "orb"
            acc = parts[0][0]
            for p, _ in parts[1:]:
                acc = f"({op} {acc} {p})"
            return acc, "b"
        if isinstance(n, ast.UnaryOp) and isinstance(n.op, ast.Not):
            a, t = self.e(n.operand)
            if t != "b":
                raise Unsupported(src)
            return f"(negb {a})", "b"
        if isinstance(n, ast.Compare) and len(n.ops) == 1:
            op, right = n.ops[0], n.comparators[0]
            if isinstance(op, (ast.IsNot, ast.Is)) and isinstance(right, ast.Constant) and right.value is None:
                a, t = self.e(n.left)
                if t != "os":
                    raise Unsupported(src)
                return (f"(is_some {a})" if isinstance(op, ast.IsNot) else f"(negb (is_some {a}))"), "b"
            (a, ta), (b, tb) = self.e(n.left), self.e(right)
            if isinstance(op, (ast.Eq, ast.NotEq)) and ta == tb and ta in ("s", "n"):
                eq = f"(String.eqb {a} {b})" if ta == "s" else f"(Nat.eqb {a} {b})"
                return (eq if isinstance(op, ast.Eq) else f"(negb {eq})"), "b"
            raise Unsupported(f"comparison {src}")
        if isinstance(n, ast.BinOp) and isinstance(n.op, ast.Mod):
            (a, ta), (b, tb) = self.e(n.left), self.e(n.right)
            if ta == tb == "n":
                return f"(Nat.modulo {a} {b})", "n"
            raise Unsupported(src)
        if isinstance(n, ast.Call) and not n.keywords:
            f = ast.unparse(n.func)
            if f in ("min", "max") and len(n.args) == 2:
                (a, ta), (b, tb) = self.e(n.args[0]), self.e(n.args[1])
                if ta == tb == "n":
                    return f"(Nat.{f} {a} {b})", "n"
            if f == "str" and len(n.args) == 1:
                a, t = self.e(n.args[0])
                if t == "os":
                    return f"(str_of {a})", "s"
                if t == "s":
                    return a, "s"
            if isinstance(n.func, ast.Attribute) and n.func.attr in ("upper", "strip") and not n.args:
                a, t = self.e(n.func.value)
                if t == "s":
                    return f"({'upper' if n.func.attr == 'upper' else 'str_strip'} {a})", "s"
        raise Unsupported(f"expression {src}")


def func(tree, name):
    for n in tree.body:
        if isinstance(n, ast.FunctionDef) and n.name == name:
            return n
    raise Unsupported(f"{name} not found")


def regenerate() -> str:
    t = ast.parse((REPO / "digital/digital_tjm.py").read_text())
    fn = func(t, "process_layer")
    body = [st for st in fn.body if not (isinstance(st, ast.Expr) and isinstance(st.value, ast.Constant))]
    loops = [st for st in body if isinstance(st, ast.For)]
    if len(loops) != 1 or loops[0].orelse or not isinstance(loops[0].target, ast.Name):
        raise Unsupported("process_layer: expected exactly one loop over the front layer")
    loop = loops[0]
    v = loop.target.id
    pre = body[: body.index(loop)]
    post = body[body.index(loop) + 1:]
    # before the loop: the layer and four empty lists
    layer_var = None
    empties = set()
    for st in pre:
        if not (isinstance(st, ast.Assign) and len(st.targets) == 1 and isinstance(st.targets[0], ast.Name)):
            raise Unsupported(f"process_layer: statement before the loop: {ast.unparse(st)}")
        if ast.unparse(st.value) == "dag.front_layer()":
            layer_var = st.targets[0].id
        elif isinstance(st.value, ast.List) and not st.value.elts:
            empties.add(st.targets[0].id)
        else:
            raise Unsupported(f"process_layer: statement before the loop: {ast.unparse(st)}")
    if layer_var is None or ast.unparse(loop.iter) != layer_var or empties != set(LISTS):
        raise Unsupported("process_layer: expected `for node in <dag.front_layer()>` and the four result lists initialised empty")

    def leaf(acts):
        if len(acts) != 1:
            raise Unsupported(f"process_layer: a path through the loop body performs {len(acts)} actions {acts}")
        return acts[0]

    def block(stmts, acts, env, rest):
        if not stmts:
            if rest is None:
                return leaf(acts)
            return block(rest[0], acts, env, rest[1])
        st, tail = stmts[0], stmts[1:]
        if isinstance(st, ast.Assign) and len(st.targets) == 1:
            tg = st.targets[0]
            if isinstance(tg, ast.Name):
                return block(tail, acts, {**env, tg.id: st.value}, rest)
            if isinstance(tg, ast.Tuple) and isinstance(st.value, ast.Tuple) and len(tg.elts) == len(st.value.elts) and all(isinstance(x, ast.Name) for x in tg.elts):
                return block(tail, acts, {**env, **{x.id: val for x, val in zip(tg.elts, st.value.elts)}}, rest)
            raise Unsupported(f"assignment {ast.unparse(st)}")
        if isinstance(st, ast.Expr) and isinstance(st.value, ast.Call):
            src = ast.unparse(st.value)
            if src == f"dag.remove_op_node({v})":
                return block(tail, acts + ["CDrop"], env, rest)
            for lst, c in LISTS.items():
                if src == f"{lst}.append({v})":
                    return block(tail, acts + [c], env, rest)
            raise Unsupported(f"call {src}")
        if isinstance(st, ast.Continue):
            return leaf(acts)
        if isinstance(st, ast.Raise):
            if ast.unparse(st) != "raise NotImplementedError":
                raise Unsupported(ast.unparse(st))
            return leaf(acts + ["CRaise"])
        if isinstance(st, ast.If):
            c, ty = Expr(v, env).e(st.test)
            if ty != "b":
                raise Unsupported(f"test {ast.unparse(st.test)}")
            return f"(if {c} then {block(st.body, acts, env, (tail, rest))} else {block(st.orelse, acts, env, (tail, rest))})"
        raise Unsupported(f"statement {ast.unparse(st)}")

    tree = block(loop.body, [], {}, None)
    # after the loop: three sorts and the returned tuple
    keys = {}
    ret = None
    for st in post:
        if isinstance(st, ast.Return):
            ret = st
            continue
        ok = (isinstance(st, ast.Expr) and isinstance(st.value, ast.Call) and isinstance(st.value.func, ast.Attribute) and st.value.func.attr == "sort"
              and isinstance(st.value.func.value, ast.Name) and not st.value.args and len(st.value.keywords) == 1 and st.value.keywords[0].arg == "key"
              and isinstance(st.value.keywords[0].value, ast.Lambda) and len(st.value.keywords[0].value.args.args) == 1)
        if not ok:
            raise Unsupported(f"process_layer: statement after the loop: {ast.unparse(st)}")
        lam = st.value.keywords[0].value
        k, ty = Expr(lam.args.args[0].arg, {}).e(lam.body)
        if ty != "n" or st.value.func.value.id in keys:
            raise Unsupported(f"sort key {ast.unparse(lam)}")
        keys[st.value.func.value.id] = (k, ast.unparse(lam.body))
    if set(keys) != {"single_qubit_nodes", "even_nodes", "odd_nodes"}:
        raise Unsupported(f"process_layer: sorted groups {sorted(keys)}")
    if ret is None or ast.unparse(ret.value) not in ("(single_qubit_nodes, even_nodes, odd_nodes, measure_barriers)",
                                                     "single_qubit_nodes, even_nodes, odd_nodes, measure_barriers"):
        raise Unsupported("process_layer: expected `return single_qubit_nodes, even_nodes, odd_nodes, measure_barriers`")
    out = ["(* GENERATED on every run by harness/gen/translate_layer.py from /repo's current source.  Do not edit. *)",
           "From Coq Require Import List Arith Bool String Ascii.", "Import ListNotations.",
           "From Yaqs Require Import Model.DigitalLoop Model.LayerRule.", "Local Open Scope string_scope.", "",
           "(* digital_tjm.py process_layer: the body of `for node in current_layer` as a decision tree *)",
           f"Definition classify_src (d : descr) : cls :=\n  {tree}.", ""]
    for lst, nm in (("single_qubit_nodes", "single"), ("even_nodes", "even"), ("odd_nodes", "odd")):
        out.append(f"(* {lst}.sort(key=lambda node: {keys[lst][1]}) *)\nDefinition {nm}_key_src (d : descr) : nat := {keys[lst][0]}.")
    # ---- the front-end's count of sampling barriers (simulator._run_strong_sim), which sizes the result arrays ----
    ts = ast.parse((REPO / "simulator.py").read_text())
    fs = func(ts, "_run_strong_sim")
    asg = [st for st in ast.walk(fs) if isinstance(st, ast.Assign) and ast.unparse(st.targets[0]) == "sim_params.num_mid_measurements"]
    if len(asg) != 1:
        raise Unsupported("_run_strong_sim: expected exactly one assignment to sim_params.num_mid_measurements")
    val = asg[0].value
    ok = (isinstance(val, ast.Call) and ast.unparse(val.func) == "sum" and len(val.args) == 1 and isinstance(val.args[0], ast.GeneratorExp)
          and isinstance(val.args[0].elt, ast.Constant) and val.args[0].elt.value == 1 and len(val.args[0].generators) == 1)
    if not ok:
        raise Unsupported("_run_strong_sim: expected num_mid_measurements = sum(1 for n in dag.op_nodes() if <test>)")
    g = val.args[0].generators[0]
    if ast.unparse(g.iter) != "dag.op_nodes()" or not isinstance(g.target, ast.Name) or len(g.ifs) != 1 or g.is_async:
        raise Unsupported("_run_strong_sim: expected one loop over dag.op_nodes() with one test")
    c, ty = Expr(g.target.id, {}).e(g.ifs[0])
    if ty != "b":
        raise Unsupported("_run_strong_sim: the counting test is not boolean")
    out.append(f"(* simulator.py _run_strong_sim: num_mid_measurements = sum(1 for n in dag.op_nodes() if {ast.unparse(g.ifs[0])}) *)\n"
               f"Definition counted_src (d : descr) : bool :=\n  {c}.")
    new = "\n".join(out) + "\n"
    if not OUT.exists() or OUT.read_text() != new:
        OUT.write_text(new)
    return new


if __name__ == "__main__":
    print(regenerate())
