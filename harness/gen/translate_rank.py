"""Translator: the rank-selection fragments of
     tdvp.split_mps_tensor, decompositions.two_site_svd, decompositions.truncated_right_svd
are read from /repo's CURRENT source with Python's ast and emitted as Gallina definitions over the Num record
(coq/Gen/RankGen.v).  Proofs/RankGenP.v proves the generated definitions equal to the hand-written model RankSelect.v, so the
C08/C09 theorems are re-checked against what the code says now.

The translated fragment is the statement list between the SVD call and the first statement that slices with the chosen rank.
Supported subset (anything else raises Unsupported = fail closed; the check then reports the obligation as broken):
  x = e | x += e | if/elif/else | `if v is not None:` on an optional parameter | for idx, s in enumerate(reversed(v) | np.flip(v)) with
  `if c: ...; break` | e ::= names, numeric literals, sim_params.<field>, len(v), min, max, int, +, -, *, e**2, comparisons, not,
  e if c else e, v[0], np.sum((v / e) >= e), string equality.
Semantics notes recorded in the trusted base: Python ints are modelled by nat (subtractions `len - idx` happen with idx < len);
`v[0]` is `nth 0 v zero` (the spectrum is never empty in the callers); a loop is a structurally recursive function over the list.
"""
from __future__ import annotations

import ast
import pathlib

REPO = pathlib.Path("/repo/src/mqt/yaqs")
OUT = pathlib.Path("/verif/coq/Gen/RankGen.v")


class Unsupported(Exception):
    pass


# fragment descriptions: file, function, name of the SVD call that precedes the fragment, result variable, parameters
FRAGMENTS = [
    dict(file="core/methods/tdvp.py", func="split_mps_tensor", after="robust_svd", result="keep", spectrum="s_vec", name="split_keep",
         params=[("dynamic", "bool"), ("trunc_mode", "str"), ("threshold", "num"), ("min_bond_dim", "nat"), ("max_bond_dim", "nat")]),
    dict(file="core/methods/decompositions.py", func="two_site_svd", after="robust_svd", result="keep", spectrum="s_vec", name="tss_keep",
         params=[("threshold", "num"), ("max_bond_dim", "optnat"), ("min_bond_dim", "nat")]),
    dict(file="core/methods/decompositions.py", func="truncated_right_svd", after="right_svd", result="cut_index", spectrum="s_vec",
         name="trs_keep", params=[("threshold", "num"), ("max_bond_dim", "optnat")]),
]
COQ_TY = {"nat": "nat", "num": "T N", "bool": "bool", "str": "string", "optnat": "option nat"}


def names_in(node):
    return {n.id for n in ast.walk(node) if isinstance(n, ast.Name)}


class Frag:
    def __init__(self, spec):
        self.spec = spec
        self.env = {p: t for p, t in spec["params"]}
        self.env[spec["spectrum"]] = "list"
        self.loops = []  # emitted top-level Fixpoints
        self.nloop = 0

    # ---- expressions ----------------------------------------------------------------------------------------------
    def var(self, name):
        if name not in self.env:
            raise Unsupported(f"unknown variable {name}")
        return name, self.env[name]

    def coerce(self, txt, ty, want):
        if ty == want:
            return txt
        if ty == "int" and want == "nat":
            return txt
        if ty == "int" and want == "num":
            if txt == "0":
                return "(zero N)"
            if txt == "1":
                return "(one N)"
        raise Unsupported(f"cannot use {txt}:{ty} as {want}")

    def unify(self, a, b):
        (ta, ya), (tb, yb) = a, b
        if ya == yb and ya != "int":
            return ta, tb, ya
        if ya == "int" and yb == "int":
            return ta, tb, "nat"
        if ya == "int":
            return self.coerce(ta, ya, yb), tb, yb
        if yb == "int":
            return ta, self.coerce(tb, yb, ya), ya
        raise Unsupported(f"type mismatch {ya} / {yb}")

    def expr(self, e):
        if isinstance(e, ast.Constant):
            if isinstance(e.value, bool):
                return ("true" if e.value else "false"), "bool"
            if isinstance(e.value, int):
                return str(e.value), "int"
            if isinstance(e.value, float):
                if e.value == 0.0:
                    return "(zero N)", "num"
                if e.value == 1.0:
                    return "(one N)", "num"
                raise Unsupported(f"float literal {e.value}")
            if isinstance(e.value, str):
                return f'"{e.value}"%string', "str"
            raise Unsupported(f"constant {e.value!r}")
        if isinstance(e, ast.Name):
            return self.var(e.id)
        if isinstance(e, ast.Attribute):
            if isinstance(e.value, ast.Name) and e.value.id == "sim_params":
                return self.var(e.attr)
            raise Unsupported(f"attribute {ast.dump(e)}")
        if isinstance(e, ast.Call):
            f = e.func
            fname = f.id if isinstance(f, ast.Name) else (f"{f.value.id}.{f.attr}" if isinstance(f, ast.Attribute) and isinstance(f.value, ast.Name) else None)
            if e.keywords:
                raise Unsupported("keyword arguments")
            if fname == "len" and len(e.args) == 1:
                t, y = self.expr(e.args[0])
                if y != "list":
                    raise Unsupported("len of a non-list")
                return f"(List.length {t})", "nat"
            if fname in ("min", "max") and len(e.args) == 2:
                a, b, y = self.unify(self.expr(e.args[0]), self.expr(e.args[1]))
                if y != "nat":
                    raise Unsupported(f"{fname} on {y}")
                return f"(Nat.{fname} {a} {b})", "nat"
            if fname == "int" and len(e.args) == 1:
                t, y = self.expr(e.args[0])
                if y not in ("nat", "int"):
                    raise Unsupported("int() of a non-integer")
                return t, "nat"
            if fname == "np.sum" and len(e.args) == 1:
                # np.sum((v / e1) >= e2): number of entries x with x / e1 >= e2
                c = e.args[0]
                if (isinstance(c, ast.Compare) and len(c.ops) == 1 and isinstance(c.ops[0], ast.GtE) and isinstance(c.left, ast.BinOp)
                        and isinstance(c.left.op, ast.Div)):
                    v, vy = self.expr(c.left.left)
                    d, dy = self.expr(c.left.right)
                    r, ry = self.expr(c.comparators[0])
                    if vy == "list" and dy == "num" and ry == "num":
                        return f"(List.length (List.filter (fun x => leb N {r} (div N x {d})) {v}))", "nat"
                raise Unsupported("np.sum pattern")
            raise Unsupported(f"call {fname}")
        if isinstance(e, ast.Subscript):
            t, y = self.expr(e.value)
            if y == "list" and isinstance(e.slice, ast.Constant) and e.slice.value == 0:
                return f"(List.nth 0 {t} (zero N))", "num"
            raise Unsupported("subscript")
        if isinstance(e, ast.BinOp):
            if isinstance(e.op, ast.Pow):
                if isinstance(e.right, ast.Constant) and e.right.value == 2:
                    t, y = self.expr(e.left)
                    if y != "num":
                        raise Unsupported("square of a non-number")
                    return f"(mul N {t} {t})", "num"
                raise Unsupported("power")
            a, b, y = self.unify(self.expr(e.left), self.expr(e.right))
            op = {ast.Add: "add", ast.Sub: "sub", ast.Mult: "mul", ast.Div: "div"}.get(type(e.op))
            if op is None:
                raise Unsupported(f"operator {type(e.op).__name__}")
            if y == "num":
                return f"({op} N {a} {b})", "num"
            if y == "nat" and op in ("add", "sub", "mul"):
                return f"({a} {dict(add='+', sub='-', mul='*')[op]} {b})", "nat"
            raise Unsupported(f"{op} on {y}")
        if isinstance(e, ast.Compare) and len(e.ops) == 1:
            a, b, y = self.unify(self.expr(e.left), self.expr(e.comparators[0]))
            o = type(e.ops[0])
            if y == "num":
                m = {ast.Gt: f"(ltb N {b} {a})", ast.GtE: f"(leb N {b} {a})", ast.Lt: f"(ltb N {a} {b})", ast.LtE: f"(leb N {a} {b})",
                     ast.Eq: f"(eqb N {a} {b})"}
            elif y == "nat":
                m = {ast.Gt: f"({b} <? {a})", ast.GtE: f"({b} <=? {a})", ast.Lt: f"({a} <? {b})", ast.LtE: f"({a} <=? {b})",
                     ast.Eq: f"({a} =? {b})"}
            elif y == "str":
                m = {ast.Eq: f"(String.eqb {a} {b})"}
            else:
                raise Unsupported(f"comparison on {y}")
            if o not in m:
                raise Unsupported(f"comparison {o.__name__}")
            return m[o], "bool"
        if isinstance(e, ast.UnaryOp) and isinstance(e.op, ast.Not):
            t, y = self.expr(e.operand)
            if y != "bool":
                raise Unsupported("not of a non-boolean")
            return f"(negb {t})", "bool"
        if isinstance(e, ast.IfExp):
            c, cy = self.expr(e.test)
            a, b, y = self.unify(self.expr(e.body), self.expr(e.orelse))
            if cy != "bool":
                raise Unsupported("condition")
            return f"(if {c} then {a} else {b})", y
        raise Unsupported(f"expression {type(e).__name__}")

    # ---- statements: continuation-passing; k() yields the text of what follows ----------------------------------------------
    def assign(self, name, e, aug=None):
        t, y = self.expr(e)
        if aug is not None:
            cur, cy = self.var(name)
            t2, y2 = self.expr(ast.BinOp(left=ast.Name(id=name, ctx=ast.Load()), op=aug, right=e))
            t, y = t2, y2
        if y == "int":
            # an integer literal: keep the variable polymorphic until it meets a typed value (cut_sum = 0; cut_sum += s**2)
            y = self.int_var_type(name)
            t = self.coerce(t, "int", y)
        if name in self.env and self.env[name] != y:
            raise Unsupported(f"{name} changes type {self.env[name]} -> {y}")
        self.env[name] = y
        return f"let {name} := {t} in\n"

    def int_var_type(self, name):
        return self.hints.get(name, "nat")

    def block(self, stmts, k):
        if not stmts:
            return k()
        s, rest = stmts[0], stmts[1:]
        if isinstance(s, ast.Expr) and isinstance(s.value, ast.Constant):
            return self.block(rest, k)
        if isinstance(s, ast.Assign) and len(s.targets) == 1 and isinstance(s.targets[0], ast.Name):
            head = self.assign(s.targets[0].id, s.value)
            return head + self.block(rest, k)
        if isinstance(s, ast.AugAssign) and isinstance(s.target, ast.Name):
            head = self.assign(s.target.id, s.value, aug=s.op)
            return head + self.block(rest, k)
        if isinstance(s, ast.If):
            # the continuation is duplicated into both branches (fragments are tiny); environments must agree afterwards
            t = s.test
            if (isinstance(t, ast.Compare) and len(t.ops) == 1 and isinstance(t.ops[0], ast.IsNot) and isinstance(t.left, ast.Name)
                    and isinstance(t.comparators[0], ast.Constant) and t.comparators[0].value is None):
                v = t.left.id
                if self.env.get(v) != "optnat" or s.orelse:
                    raise Unsupported("`is not None` on a non-optional")
                env0 = dict(self.env)
                self.env[v] = "nat"
                some = self.block(s.body + rest, k)
                self.env = dict(env0)
                none = self.block(rest, k)
                self.env = env0
                return f"match {v} with\n| Some {v} =>\n{some}\n| None =>\n{none}\nend"
            c, cy = self.expr(t)
            if cy != "bool":
                raise Unsupported("if condition")
            env0 = dict(self.env)
            a = self.block(s.body + rest, k)
            self.env = dict(env0)
            b = self.block(s.orelse + rest, k)
            self.env = env0
            return f"if {c} then\n{a}\nelse\n{b}"
        if isinstance(s, ast.For):
            return self.loop(s, rest, k)
        raise Unsupported(f"statement {type(s).__name__}")

    def loop(self, s, rest, k):
        it = s.iter
        if not (isinstance(it, ast.Call) and isinstance(it.func, ast.Name) and it.func.id == "enumerate" and len(it.args) == 1
                and isinstance(s.target, ast.Tuple) and len(s.target.elts) == 2 and not s.orelse):
            raise Unsupported("loop header")
        inner = it.args[0]
        ok = isinstance(inner, ast.Call) and len(inner.args) == 1 and (
            (isinstance(inner.func, ast.Name) and inner.func.id == "reversed")
            or (isinstance(inner.func, ast.Attribute) and isinstance(inner.func.value, ast.Name) and inner.func.value.id == "np" and inner.func.attr == "flip"))
        if not ok:
            raise Unsupported("loop iterable")
        lst, ly = self.expr(inner.args[0])
        if ly != "list":
            raise Unsupported("loop over a non-list")
        idx, elt = s.target.elts[0].id, s.target.elts[1].id
        assigned = []
        for n in ast.walk(ast.Module(body=s.body, type_ignores=[])):
            if isinstance(n, (ast.Assign, ast.AugAssign)):
                tg = n.targets[0] if isinstance(n, ast.Assign) else n.target
                if isinstance(tg, ast.Name) and tg.id not in assigned:
                    assigned.append(tg.id)
        state = [v for v in assigned if v in self.env]  # variables that exist before the loop: carried through the iterations
        local = [v for v in assigned if v not in self.env]
        after = set()
        for r in rest:
            after |= names_in(r)
        for v in local:
            if v in after or v == self.spec["result"]:
                raise Unsupported(f"{v} is first assigned inside the loop and used after it")
        free = sorted((names_in(ast.Module(body=s.body, type_ignores=[])) | {a.attr for a in ast.walk(ast.Module(body=s.body, type_ignores=[]))
                                                                                if isinstance(a, ast.Attribute) and isinstance(a.value, ast.Name) and a.value.id == "sim_params"})
                      - {idx, elt, "sim_params", "np", "len", "min", "max", "int"} - set(state) - set(local))
        for v in free:
            self.var(v)
        self.nloop += 1
        lname = f"{self.spec['name']}_loop{self.nloop}"
        env0 = dict(self.env)
        self.env[idx], self.env[elt] = "nat", "num"
        st_tuple = "(" + ", ".join(state) + ")" if len(state) > 1 else state[0]

        def body_k():
            return f"{lname} N {' '.join(free)} rest__ (S {idx}) {' '.join(state)}"

        body = self.loop_body(s.body, body_k, st_tuple)
        params = " ".join(f"({v} : {COQ_TY[env0[v]] if env0[v] != 'list' else 'list (T N)'})" for v in free)
        st_params = " ".join(f"({v} : {COQ_TY[env0[v]]})" for v in state)
        st_type = " * ".join(COQ_TY[env0[v]] for v in state)
        self.loops.append(
            f"Fixpoint {lname} (N : Num) {params} (l__ : list (T N)) ({idx} : nat) {st_params} {{struct l__}} : {st_type} :=\n"
            f"  match l__ with\n  | [] => {st_tuple}\n  | {elt} :: rest__ =>\n{body}\n  end.\n")
        for v in local:
            self.env.pop(v, None)
        self.env = env0
        pat = "'" + st_tuple if len(state) > 1 else state[0]
        return (f"let {pat} := {lname} N {' '.join(free)} (List.rev {lst}) 0 {' '.join(state)} in\n" + self.block(rest, k))

    def loop_body(self, stmts, cont, st_tuple):
        """like block, but `break` ends with the current state and falling off the end continues with the next element"""
        if not stmts:
            return cont()
        s, rest = stmts[0], stmts[1:]
        if isinstance(s, ast.Break):
            return st_tuple
        if isinstance(s, ast.Expr) and isinstance(s.value, ast.Constant):
            return self.loop_body(rest, cont, st_tuple)
        if isinstance(s, ast.Assign) and len(s.targets) == 1 and isinstance(s.targets[0], ast.Name):
            return self.assign(s.targets[0].id, s.value) + self.loop_body(rest, cont, st_tuple)
        if isinstance(s, ast.AugAssign) and isinstance(s.target, ast.Name):
            return self.assign(s.target.id, s.value, aug=s.op) + self.loop_body(rest, cont, st_tuple)
        if isinstance(s, ast.If):
            c, cy = self.expr(s.test)
            if cy != "bool":
                raise Unsupported("if condition")
            env0 = dict(self.env)
            a = self.loop_body(s.body + rest, cont, st_tuple)
            self.env = dict(env0)
            b = self.loop_body(s.orelse + rest, cont, st_tuple)
            self.env = env0
            return f"if {c} then\n{a}\nelse\n{b}"
        raise Unsupported(f"statement {type(s).__name__} in a loop")


def find_fragment(spec, tree):
    fn = next((n for n in ast.walk(tree) if isinstance(n, ast.FunctionDef) and n.name == spec["func"]), None)
    if fn is None:
        raise Unsupported(f"function {spec['func']} not found")
    start = None
    for k, s in enumerate(fn.body):
        if start is None and isinstance(s, ast.Assign) and isinstance(s.value, ast.Call):
            f = s.value.func
            nm = f.id if isinstance(f, ast.Name) else getattr(f, "attr", None)
            if nm == spec["after"]:
                start = k + 1
                continue
        if start is not None:
            uses_slice = any(isinstance(n, ast.Slice) and spec["result"] in names_in(n) for n in ast.walk(s))
            if uses_slice:
                return fn.body[start:k]
    raise Unsupported(f"fragment of {spec['func']} not delimited (SVD call {spec['after']} ... slice by {spec['result']})")


def hints_for(stmts):
    """type of variables initialised with an integer literal: 'num' if they are later combined with squares / float values"""
    hints = {}
    for n in ast.walk(ast.Module(body=stmts, type_ignores=[])):
        if isinstance(n, ast.AugAssign) and isinstance(n.target, ast.Name):
            if any(isinstance(m, ast.Pow) for m in ast.walk(n.value)) or any(isinstance(m, ast.Constant) and isinstance(m.value, float) for m in ast.walk(n.value)):
                hints[n.target.id] = "num"
    return hints


def translate(spec):
    src = (REPO / spec["file"]).read_text()
    stmts = find_fragment(spec, ast.parse(src))
    fr = Frag(spec)
    fr.hints = hints_for(stmts)
    body = fr.block(stmts, lambda: fr.var(spec["result"])[0] if fr.env.get(spec["result"]) == "nat" else (_ for _ in ()).throw(Unsupported("result is not an integer")))
    params = " ".join(f"({p} : {COQ_TY[t]})" for p, t in spec["params"])
    text = "".join(fr.loops)
    text += f"Definition {spec['name']} (N : Num) ({spec['spectrum']} : list (T N)) {params} : nat :=\n{body}.\n"
    return text, ast.unparse(ast.Module(body=stmts, type_ignores=[]))


def regenerate():
    parts, srcs = [], []
    for spec in FRAGMENTS:
        text, src = translate(spec)
        parts.append(f"(* {spec['file']}::{spec['func']} *)\n(*\n{src}\n*)\n{text}")
    head = ("(* GENERATED on every run by harness/gen/translate_rank.py from /repo's current source.  Do not edit. *)\n"
            "From Coq Require Import List Arith Bool String.\nImport ListNotations.\nFrom Yaqs Require Import Base.Num.\n"
            "Local Open Scope nat_scope.\n\n")
    new = head + "\n".join(parts)
    if not OUT.exists() or OUT.read_text() != new:
        OUT.write_text(new)
    return new


if __name__ == "__main__":
    print(regenerate())
