"""Translator for Observable.initialize (core/data_structures/simulation_parameters.py), read from /repo's CURRENT source with Python's
ast and emitted as coq/Gen/InitGen.v:
    init_shape_src   the shape of Observable.trajectories and the length of Observable.results that a run allocates, as a function of the
                     class of the parameter object, its sampling flag and its counters
Proofs/InitGenP.v proves: one row per requested trajectory / shot, the column count of the front-end models (Params.run_layers for
circuits, the time grid for analog runs), and that the allocation does not depend on anything a previous run left behind (it is a
function of the parameter object alone).  Anything outside the subset (e.g. a test on the buffers of an earlier run) fails closed.
"""
from __future__ import annotations

import ast
import pathlib

REPO = pathlib.Path("/repo/src/mqt/yaqs")
OUT = pathlib.Path("/verif/coq/Gen/InitGen.v")
CLASSES = {"AnalogSimParams": "KAnalog", "WeakSimParams": "KWeak", "StrongSimParams": "KStrong"}
FLAGS = {"sim_params.sample_timesteps", "sim_params.sample_layers"}


class Unsupported(Exception):
    pass


def nat(n):
    src = ast.unparse(n)
    if src == "sim_params.num_traj":
        return "num_traj"
    if src == "sim_params.shots":
        return "shots"
    if src == "len(sim_params.times)":
        return "ntimes"
    if src == "sim_params.num_mid_measurements":
        return "mid"
    if isinstance(n, ast.Constant) and isinstance(n.value, int) and not isinstance(n.value, bool) and 0 <= n.value < 100:
        return str(n.value)
    if isinstance(n, ast.BinOp) and isinstance(n.op, ast.Add):
        return f"({nat(n.left)} + {nat(n.right)})"
    raise Unsupported(f"size expression {src}")


def empty_shape(call):
    if not (isinstance(call, ast.Call) and ast.unparse(call.func) == "np.empty" and len(call.args) == 1 and all(k.arg == "dtype" for k in call.keywords)):
        raise Unsupported(f"allocation {ast.unparse(call)}")
    a = call.args[0]
    if isinstance(a, ast.Tuple):
        return [nat(e) for e in a.elts]
    return [nat(a)]


def regenerate() -> str:
    t = ast.parse((REPO / "core/data_structures/simulation_parameters.py").read_text())
    fn = None
    for c in t.body:
        if isinstance(c, ast.ClassDef) and c.name == "Observable":
            for m in c.body:
                if isinstance(m, ast.FunctionDef) and m.name == "initialize":
                    fn = m
    if fn is None:
        raise Unsupported("Observable.initialize not found")
    body = [st for st in fn.body if not (isinstance(st, ast.Expr) and isinstance(st.value, ast.Constant))]

    def block(stmts, env):
        """returns a Coq expression of type option (nat * nat * nat): rows, columns of trajectories, length of results"""
        env = dict(env)
        for i, st in enumerate(stmts):
            if isinstance(st, ast.Assign) and len(st.targets) == 1:
                tg = ast.unparse(st.targets[0])
                if tg == "self.trajectories":
                    sh = empty_shape(st.value)
                    if len(sh) != 2:
                        raise Unsupported("trajectories must be two-dimensional")
                    env["traj"] = sh
                elif tg == "self.results":
                    sh = empty_shape(st.value)
                    if len(sh) != 1:
                        raise Unsupported("results must be one-dimensional")
                    env["res"] = sh[0]
                elif tg == "self.times":
                    pass  # the time axis handed to the user: C15's business
                else:
                    raise Unsupported(f"assignment to {tg}")
                continue
            if isinstance(st, ast.If):
                src = ast.unparse(st.test)
                rest = stmts[i + 1:]
                if src in FLAGS:
                    return f"(if flag then {block(st.body + rest, env)} else {block(st.orelse + rest, env)})"
                if isinstance(st.test, ast.Call) and ast.unparse(st.test.func) == "isinstance" and ast.unparse(st.test.args[0]) == "sim_params" \
                        and ast.unparse(st.test.args[1]) in CLASSES:
                    k = CLASSES[ast.unparse(st.test.args[1])]
                    return f"(if kind_eqb k {k} then {block(st.body + rest, env)} else {block(st.orelse + rest, env)})"
                raise Unsupported(f"test {src}")
            raise Unsupported(f"statement {ast.unparse(st)}")
        if "traj" in env and "res" in env:
            return f"Some ({env['traj'][0]}, {env['traj'][1]}, {env['res']})"
        if not env:
            return "None"
        raise Unsupported("a path allocates only one of trajectories / results")

    tree = block(body, {})
    new = ("(* GENERATED on every run by harness/gen/translate_init.py from /repo's current source.  Do not edit. *)\n"
           "From Coq Require Import List Arith Bool.\nImport ListNotations.\nFrom Yaqs Require Import Model.InitRule.\n\n"
           "(* simulation_parameters.py Observable.initialize: shape of self.trajectories (rows, columns) and length of self.results *)\n"
           f"Definition init_shape_src (k : pclass) (flag : bool) (num_traj ntimes shots mid : nat) : option (nat * nat * nat) :=\n  {tree}.\n")
    if not OUT.exists() or OUT.read_text() != new:
        OUT.write_text(new)
    return new


if __name__ == "__main__":
    print(regenerate())
