"""Fail-closed translator: gate_library.py (Python ast) -> coq/Gen/GatesGen.v.

For every supported gate class it extracts the `mat` expression of __init__ and, for two-qubit gates, the
`self.generator = [A, B]` pair of set_sites, and renders them as Gallina terms over Coquelicot's C with the real
parameters theta, phi, lam.  Anything outside the supported grammar raises Untranslatable (the check then treats the
correspondence as broken).  The rendering is validated on every run by evaluating the SAME ast nodes in Python and
comparing with the live gate objects (see validate()).
"""
from __future__ import annotations

import ast
import types
from fractions import Fraction
from pathlib import Path

SRC = Path("/repo/src/mqt/yaqs/core/libraries/gate_library.py")
OUT = Path(__file__).resolve().parent.parent.parent / "coq" / "Gen" / "GatesGen.v"

ONE_Q = {"X": "x", "Y": "y", "Z": "z", "H": "h", "Id": "id", "SX": "sx", "Rx": "rx", "Ry": "ry", "Rz": "rz",
         "Phase": "p", "U2": "u2", "U": "u"}
TWO_Q = {"CX": "cx", "CZ": "cz", "CPhase": "cp", "SWAP": "swap", "Rxx": "rxx", "Ryy": "ryy", "Rzz": "rzz"}
PARAMS = {"theta": "theta", "phi": "phi", "lam": "lam"}


class Untranslatable(Exception):
    pass


def fail(node, why):
    raise Untranslatable(f"untranslatable construct at gate_library.py:{getattr(node, 'lineno', '?')}: {why}")


def is_np(node, name):
    return isinstance(node, ast.Attribute) and isinstance(node.value, ast.Name) and node.value.id == "np" and node.attr == name


class Tr:
    def __init__(self, local_defs):
        self.locals = local_defs  # name -> ast node

    # ---- real-valued expressions ----
    def R(self, n):
        if isinstance(n, ast.Constant) and isinstance(n.value, (int, float)) and not isinstance(n.value, bool):
            fr = Fraction(str(n.value))
            return f"(IZR ({fr.numerator}))" if fr.denominator == 1 else f"(IZR ({fr.numerator}) / IZR ({fr.denominator}))"
        if isinstance(n, ast.UnaryOp) and isinstance(n.op, ast.USub):
            return f"(- {self.R(n.operand)})"
        if isinstance(n, ast.BinOp) and type(n.op) in (ast.Add, ast.Sub, ast.Mult, ast.Div):
            op = {ast.Add: "+", ast.Sub: "-", ast.Mult: "*", ast.Div: "/"}[type(n.op)]
            return f"({self.R(n.left)} {op} {self.R(n.right)})"
        if is_np(n, "pi"):
            return "PI"
        if isinstance(n, ast.Attribute) and isinstance(n.value, ast.Name) and n.value.id == "self" and n.attr in PARAMS:
            return PARAMS[n.attr]
        if isinstance(n, ast.Name) and n.id in self.locals:
            return self.R(self.locals[n.id])
        if isinstance(n, ast.Call) and is_np(n.func, "sqrt") and len(n.args) == 1:
            return f"(sqrt {self.R(n.args[0])})"
        if isinstance(n, ast.Call) and (is_np(n.func, "cos") or is_np(n.func, "sin")) and len(n.args) == 1:
            return f"({n.func.attr} {self.R(n.args[0])})"
        fail(n, f"real expression {ast.dump(n)[:80]}")

    # ---- complex-valued expressions ----
    def C(self, n):
        if isinstance(n, ast.Constant) and isinstance(n.value, complex):
            if n.value.real != 0:
                fail(n, "complex literal with real part")
            fr = Fraction(str(n.value.imag))
            k = f"(IZR ({fr.numerator}))" if fr.denominator == 1 else f"(IZR ({fr.numerator}) / IZR ({fr.denominator}))"
            return "Ci" if fr == 1 else f"(RtoC {k} * Ci)"
        if isinstance(n, ast.UnaryOp) and isinstance(n.op, ast.USub):
            return f"(- {self.C(n.operand)})"
        if isinstance(n, ast.BinOp) and type(n.op) in (ast.Add, ast.Sub, ast.Mult, ast.Div):
            op = {ast.Add: "+", ast.Sub: "-", ast.Mult: "*", ast.Div: "/"}[type(n.op)]
            return f"({self.C(n.left)} {op} {self.C(n.right)})"
        if isinstance(n, ast.Call) and is_np(n.func, "exp") and len(n.args) == 1:
            return f"(cis {self.I(n.args[0])})"
        if isinstance(n, ast.Name) and n.id in self.locals:
            return self.C(self.locals[n.id])
        try:
            return f"(RtoC {self.R(n)})"
        except Untranslatable:
            fail(n, f"complex expression {ast.dump(n)[:80]}")

    # ---- purely imaginary expressions i*r: returns the real expression r ----
    def I(self, n):  # noqa: E743
        if isinstance(n, ast.Constant) and isinstance(n.value, complex) and n.value.real == 0:
            fr = Fraction(str(n.value.imag))
            return f"(IZR ({fr.numerator}))" if fr.denominator == 1 else f"(IZR ({fr.numerator}) / IZR ({fr.denominator}))"
        if isinstance(n, ast.UnaryOp) and isinstance(n.op, ast.USub):
            return f"(- {self.I(n.operand)})"
        if isinstance(n, ast.BinOp) and isinstance(n.op, ast.Mult):
            for im, re in ((n.left, n.right), (n.right, n.left)):
                try:
                    return f"({self.I(im)} * {self.R(re)})"
                except Untranslatable:
                    continue
        if isinstance(n, ast.BinOp) and isinstance(n.op, ast.Div):
            return f"({self.I(n.left)} / {self.R(n.right)})"
        fail(n, "np.exp of something that is not 1j * <real expression>")

    # ---- matrices ----
    def M(self, n):
        if isinstance(n, ast.Call) and is_np(n.func, "array") and n.args and isinstance(n.args[0], ast.List):
            rows = []
            for r in n.args[0].elts:
                if not isinstance(r, ast.List):
                    fail(r, "np.array row is not a list literal")
                rows.append("[" + "; ".join(self.C(e) for e in r.elts) + "]")
            return "[" + "; ".join(rows) + "]"
        if isinstance(n, ast.Call) and is_np(n.func, "eye") and len(n.args) == 1 and isinstance(n.args[0], ast.Constant) and n.args[0].value == 2:
            return "[[RtoC 1; RtoC 0]; [RtoC 0; RtoC 1]]"
        if isinstance(n, ast.BinOp) and isinstance(n.op, ast.Mult):
            for sc, m in ((n.left, n.right), (n.right, n.left)):
                try:
                    mm = self.M(m)
                except Untranslatable:
                    continue
                return f"(scal {self.C(sc)} {mm})"
        if isinstance(n, ast.Name) and n.id in self.locals:
            return self.M(self.locals[n.id])
        fail(n, f"matrix expression {ast.dump(n)[:80]}")


def find_method(cls, name):
    for b in cls.body:
        if isinstance(b, ast.FunctionDef) and b.name == name:
            return b
    return None


def local_assigns(fn):
    out = {}
    for st in fn.body:
        if isinstance(st, ast.Assign) and len(st.targets) == 1 and isinstance(st.targets[0], ast.Name):
            out[st.targets[0].id] = st.value
    return out


def extract():
    tree = ast.parse(SRC.read_text())
    classes = {c.name: c for c in tree.body if isinstance(c, ast.ClassDef)}
    items = {}
    for cname, gname in {**ONE_Q, **TWO_Q}.items():
        if cname not in classes:
            raise Untranslatable(f"class {cname} not found in gate_library.py")
        init = find_method(classes[cname], "__init__")
        loc = local_assigns(init)
        if "mat" not in loc:
            fail(init, f"{cname}.__init__ has no `mat = ...`")
        entry = {"name": gname, "class": cname, "mat": loc["mat"], "locals": {k: v for k, v in loc.items() if k != "mat"}}
        if cname in TWO_Q and cname != "SWAP":
            ss = find_method(classes[cname], "set_sites")
            gen = None
            for st in ast.walk(ss):
                if isinstance(st, ast.Assign) and len(st.targets) == 1 and isinstance(st.targets[0], ast.Attribute) \
                        and st.targets[0].attr == "generator":
                    gen = st.value
            if gen is None or not isinstance(gen, ast.List) or len(gen.elts) != 2:
                fail(ss, f"{cname}.set_sites has no two-element `self.generator = [A, B]`")
            entry["gen"] = gen.elts
        items[gname] = entry
    return items


HEADER = """(* GENERATED on every run by harness/gen/translate_gates.py from /repo/src/mqt/yaqs/core/libraries/gate_library.py.
   Do not edit: the C18/C02 theorems are stated about these terms. *)
From Coq Require Import Reals List.
From Coquelicot Require Import Coquelicot.
From Yaqs Require Import Base.CMat.
Import ListNotations.
Local Open Scope R_scope.
Local Open Scope C_scope.
"""


def render(items):
    out = [HEADER]
    for g, e in items.items():
        tr = Tr(e["locals"])
        out.append(f"Definition gen_{g}_matrix (theta phi lam : R) : M := {tr.M(e['mat'])}.")
        if "gen" in e:
            out.append(f"Definition gen_{g}_genA (theta phi lam : R) : M := {tr.M(e['gen'][0])}.")
            out.append(f"Definition gen_{g}_genB (theta phi lam : R) : M := {tr.M(e['gen'][1])}.")
    return "\n".join(out) + "\n"


def regenerate():
    items = extract()
    text = render(items)
    OUT.parent.mkdir(exist_ok=True)
    if not OUT.exists() or OUT.read_text() != text:
        OUT.write_text(text)
    return items


def validate(items, rng):
    """Evaluate the extracted ast nodes in Python and compare with the live gate objects (returns list of problems)."""
    import numpy as np
    from qiskit.circuit import Parameter  # noqa: F401

    import mqt.yaqs.core.libraries.gate_library as GL

    bad = []
    for g, e in items.items():
        for _ in range(3):
            th, ph, la = (float(x) for x in rng.uniform(-3, 3, size=3))
            selfobj = types.SimpleNamespace(theta=th, phi=ph, lam=la)
            ns = {"np": np, "self": selfobj}
            for k, v in e["locals"].items():
                try:
                    ns[k] = eval(compile(ast.Expression(v), "<gen>", "eval"), ns)  # noqa: S307
                except Exception:  # noqa: BLE001
                    pass
            mine = np.asarray(eval(compile(ast.Expression(e["mat"]), "<gen>", "eval"), ns), dtype=complex)  # noqa: S307
            cls = getattr(GL, e["class"])
            nparams = {"Rx": 1, "Ry": 1, "Rz": 1, "Phase": 1, "CPhase": 1, "Rxx": 1, "Ryy": 1, "Rzz": 1, "U2": 2, "U": 3}.get(e["class"], 0)
            args = [[th], [ph, la], [th, ph, la]][nparams - 1] if nparams else None
            live = cls(args) if nparams else cls()
            if not np.allclose(mine, live.matrix, atol=1e-12):
                bad.append(f"{g}: extracted `mat` expression does not reproduce the live matrix")
            if "gen" in e:
                live.set_sites(0, 1)
                for k in (0, 1):
                    ga = np.asarray(eval(compile(ast.Expression(e["gen"][k]), "<gen>", "eval"), ns), dtype=complex)  # noqa: S307
                    if not np.allclose(ga, live.generator[k], atol=1e-12):
                        bad.append(f"{g}: extracted generator[{k}] does not reproduce the live generator")
    return bad


if __name__ == "__main__":
    regenerate()
    print(OUT.read_text()[:3000])
